"""C01 -- curve and field arithmetic compute exactly the group law.

Spec: NumberTheory, ECGroup (affine chord-and-tangent by definition), ECToy (TLC integers),
ECReal (BigNat), ECToyGen / NTGen (tables), C01Trace (real-size events).
M: ECToy -- group laws on every curve over F_p, p <= MaxP.
G: tables k |-> kG, point sets and SEC 1 verdicts replayed into btclib.curves on toy curves
   (every public entry point, every private multiplication variant when present).
V: events from the catalogued curves recomputed by TLC at real size.
"""

from __future__ import annotations

import concurrent.futures
import json
import random
from typing import Any

from .. import events, tlc
from ..core import Run, nat

GEN_CFG = """INIT GInit
NEXT GNext
CONSTANTS MaxP = {maxp}
AssocP = 5
PSet = {{{pset}}}
INVARIANT Emit
CHECK_DEADLOCK FALSE
"""

TOY_CFG = """SPECIFICATION Spec
CONSTANTS MaxP = {maxp}
AssocP = {assocp}
INVARIANT Closure
INVARIANT MulIsRepAdd
INVARIANT Laws
INVARIANT Assoc
INVARIANT Distrib
CHECK_DEADLOCK FALSE
"""


def gen_tables(run: Run, primes: list[int]) -> list[dict[str, Any]]:
    def one(p: int) -> tlc.Result:
        return tlc.run("ECToyGen", cfg_text=GEN_CFG.format(maxp=p, pset=p), workers=1, heap="3g")

    out = []
    with concurrent.futures.ThreadPoolExecutor(8) as ex:
        for p, res in zip(primes, ex.map(one, primes)):
            run.tlc(res, f"G ECToyGen p={p}")
            recs = [v[1] for v in res.printed_values() if isinstance(v, list) and v and v[0] == "CURVE"]
            if not recs:
                raise tlc.TLCFailure(f"ECToyGen p={p}: no curve emitted")
            out.extend(recs)
    return out


def nt_tables(run: Run, hi: int) -> list[dict[str, Any]]:
    chunks = [(lo, min(lo + 19, hi)) for lo in range(1, hi + 1, 20)]

    def one(c: tuple[int, int]) -> tlc.Result:
        cfg = f"INIT Init\nNEXT Next\nCONSTANTS Lo = {c[0]}\nHi = {c[1]}\nINVARIANT Laws\nINVARIANT Emit\nCHECK_DEADLOCK FALSE\n"
        return tlc.run("NTGen", cfg_text=cfg, workers=1, heap="2g")

    rows = []
    with concurrent.futures.ThreadPoolExecutor(12) as ex:
        for c, res in zip(chunks, ex.map(one, chunks)):
            for v in res.violations:
                raise tlc.TLCFailure(f"NTGen: the definitions violate {v.name}: {v.text[:400]}")
            run.tlc(res, f"G NTGen {c[0]}..{c[1]}")
            rows.extend(v[1] for v in res.printed_values() if isinstance(v, list) and v and v[0] == "NT")
    return rows


# --------------------------------------------------------------------------------------


def _refused(fn: Any) -> tuple[bool, str]:
    """(refused by a library value error?, description of anything else that happened)."""
    from btclib.exceptions import BTClibValueError

    try:
        v = fn()
    except BTClibValueError:
        return True, ""
    except Exception as e:  # noqa: BLE001
        return False, f"foreign exception {type(e).__name__}: {e}"
    return False, f"answered {v!r}"


def check_number_theory(run: Run, rows: list[dict[str, Any]]) -> int:
    from btclib import number_theory as nt

    n = 0
    fns = {k: getattr(nt, k, None) for k in ("mod_inv", "mod_inv_var", "mod_inv_batch", "mod_inv_batch_var",
                                              "legendre_symbol_var", "mod_sqrt_var", "tonelli_var", "xgcd_var")}
    for row in rows:
        m = row["m"]
        if m < 2:
            continue
        for a in range(-m, 2 * m + 1):
            want = row["inv"][a % m]
            for name in ("mod_inv", "mod_inv_var"):
                f = fns[name]
                if f is None:
                    continue
                n += 1
                if want == -1:
                    ok, why = _refused(lambda f=f: f(a, m))
                    if not ok:
                        run.violation(f"nt|{name}|noinverse|{why.split(':')[0][:30]}",
                                      f"{name}({a}, {m}): no inverse exists, expected a refusal, {why}",
                                      {"op": name, "args": [a, m], "expected": "refused"})
                else:
                    try:
                        got = f(a, m)
                    except Exception as e:  # noqa: BLE001
                        got = f"{type(e).__name__}"
                    if got != want:
                        run.violation(f"nt|{name}|value", f"{name}({a}, {m}) = {got}, the inverse is {want}",
                                      {"op": name, "args": [a, m], "expected": want, "actual": str(got)})
        invertible = [a for a in range(1, m) if row["inv"][a] != -1]
        for name in ("mod_inv_batch", "mod_inv_batch_var"):
            f = fns[name]
            if f is None or not invertible:
                continue
            n += 1
            try:
                got = f(invertible, m)
            except Exception as e:  # noqa: BLE001
                got = type(e).__name__
            want_l = [row["inv"][a] for a in invertible]
            if got != want_l:
                run.violation(f"nt|{name}|value", f"{name}({invertible[:6]}.., {m}) = {str(got)[:80]}, expected {want_l[:6]}..",
                              {"op": name, "args": [invertible, m], "expected": want_l})
            if len(invertible) < m - 1:  # one operand without inverse: the batch must be refused
                bad = [a for a in range(1, m) if row["inv"][a] == -1][0]
                ok, why = _refused(lambda f=f, bad=bad: f([invertible[0], bad], m))
                if not ok:
                    run.violation(f"nt|{name}|noinverse", f"{name}([.., {bad}], {m}) has a non-invertible operand: {why}",
                                  {"op": name, "args": [[invertible[0], bad], m]})
        if row["prime"] and m > 2:
            for a in range(-m, 2 * m + 1):
                roots = row["roots"][a % m]
                leg = 0 if a % m == 0 else (1 if roots else -1)
                f = fns["legendre_symbol_var"]
                if f is not None:
                    n += 1
                    try:
                        got = f(a, m)
                    except Exception as e:  # noqa: BLE001
                        got = type(e).__name__
                    if got != leg:
                        run.violation("nt|legendre_symbol_var|value", f"legendre_symbol_var({a}, {m}) = {got}, expected {leg}",
                                      {"op": "legendre_symbol_var", "args": [a, m], "expected": leg})
                for name in ("mod_sqrt_var", "tonelli_var"):
                    f = fns[name]
                    if f is None:
                        continue
                    n += 1
                    if not roots:
                        ok, why = _refused(lambda f=f: f(a, m))
                        if not ok:
                            run.violation(f"nt|{name}|noroot|p%8={m % 8}", f"{name}({a}, {m}): no square root exists, {why}",
                                          {"op": name, "args": [a, m], "expected": "refused"})
                    else:
                        try:
                            got = f(a, m)
                        except Exception as e:  # noqa: BLE001
                            got = type(e).__name__
                        if got not in roots:   # either root is right: the standard leaves the choice
                            run.violation(f"nt|{name}|value|p%8={m % 8}", f"{name}({a}, {m}) = {got}, the roots are {roots}",
                                          {"op": name, "args": [a, m], "expected": roots, "actual": str(got)})
    return n


# --------------------------------------------------------------------------------------

INF = (5, 0)


def _pt(xy: Any) -> tuple[int, int]:
    return INF if xy[0] == -1 else (xy[0], xy[1])


def _same(P: tuple[int, int], Q: tuple[int, int]) -> bool:
    if P[1] == 0 or Q[1] == 0:
        return P[1] == 0 and Q[1] == 0
    return tuple(P) == tuple(Q)


class ToyReplayer:
    def __init__(self, run: Run, rnd: random.Random, heavy: bool) -> None:
        from btclib.curves import curve, curve_group

        self.run = run
        self.rnd = rnd
        self.heavy = heavy
        self.curve = curve
        self.cg = curve_group
        self.n = 0
        self.accepted = 0
        self.valid_refused = 0
        self.skipped: set[str] = set()

    def viol(self, key: str, what: str, body: dict[str, Any]) -> None:
        self.run.violation("ec|" + key, what, body)

    def curve_tuple(self, rec: dict[str, Any], grp: dict[str, Any]) -> None:
        from btclib.exceptions import BTClibValueError

        C = self.curve.Curve
        p, a, b = rec["p"], rec["a"], rec["b"]
        G = tuple(grp["g"])
        n, h = grp["n"], grp["h"]
        tup = {"p": p, "a": a, "b": b, "G": list(G), "n": n, "h": h}
        self.n += 1
        try:
            ec = C(p, a, b, G, n, h, weakness_check=False)
            accepted = True
        except BTClibValueError:
            accepted = False
            ec = None
        except Exception as e:  # noqa: BLE001
            self.viol(f"Curve|foreign|{type(e).__name__}", f"Curve{tuple(tup.values())} raised {type(e).__name__}: {e}", {"tuple": tup})
            return
        if h != grp["hsec"]:
            # SEC 1's cofactor formula disagrees with the true cofactor on this tiny curve: also try the formula's value
            self.n += 1
            try:
                ec2 = C(p, a, b, G, n, grp["hsec"], weakness_check=False)
                acc2 = True
            except BTClibValueError:
                acc2, ec2 = False, None
            if acc2 != grp["validsec"]:
                self.viol(f"Curve|accept={acc2}|hsec|p={p}",
                          f"Curve(p={p}, a={a}, b={b}, G={G}, n={n}, h={grp['hsec']}) accepted={acc2}, SEC 1 validation says {grp['validsec']}",
                          {"tuple": {**tup, "h": grp["hsec"]}, "expected": grp["validsec"], "actual": acc2})
            if ec2 is not None:
                self.accepted += 1
                self.group(rec, grp, ec2)
        if accepted != grp["valid"]:
            self.viol(f"Curve|accept={accepted}|p={p}",
                      f"Curve(p={p}, a={a}, b={b}, G={G}, n={n}, h={h}) accepted={accepted}, SEC 1 validation says {grp['valid']}",
                      {"tuple": tup, "expected": grp["valid"], "actual": accepted})
        # every single-field corruption must be refused
        onc = {tuple(q) for q in rec["points"]}
        off = next(((x, y) for x in range(p) for y in range(1, p) if (x, y) not in onc), None)
        wrong_n = [q for q in (3, 5, 7, 11, 13, 17, 19, 23, 29, 31, 37, 41, 43, 47) if q != n and q != p]
        bad = {
            "p composite": (p + 1, a, b, G, n, h), "a = p": (p, p, b, G, n, h), "b = p": (p, a, p, G, n, h),
            "a negative": (p, -1, b, G, n, h), "b negative": (p, a, -1, G, n, h),
            "G = INF": (p, a, b, INF, n, h), "n composite": (p, a, b, G, n * 3 if n > 3 else 9, h),
            "n not the order": (p, a, b, G, wrong_n[0], rec["card"] // wrong_n[0]),
            "n not the order (2)": (p, a, b, G, wrong_n[-1], max(rec["card"] // wrong_n[-1], 1)),
        }
        for dh in (-1, 1, 2):
            if grp["hsec"] + dh != grp["hsec"] and grp["hsec"] + dh >= 0:
                bad[f"cofactor {dh:+d} off SEC 1's"] = (p, a, b, G, n, grp["hsec"] + dh)
        if off is not None:
            bad["G off curve"] = (p, a, b, off, n, h)
        for label, args in bad.items():
            self.n += 1
            ok, why = _refused(lambda args=args: C(*args, weakness_check=False))
            if not ok:
                self.viol(f"Curve|malformed|{label}", f"Curve{args} ({label}) must be refused: {why}", {"tuple": list(args), "fault": label})
        if ec is None:
            if grp["valid"]:
                self.valid_refused += 1
            return
        self.accepted += 1
        self.group(rec, grp, ec)

    # ---- the group of an accepted curve ----
    def group(self, rec: dict[str, Any], grp: dict[str, Any], ec: Any) -> None:
        n = grp["n"]
        p = rec["p"]
        T = [INF] + [_pt(q) for q in grp["table"]]   # T[k] = k*G
        idx = {T[k]: k for k in range(1, n)}
        ctx = {"p": p, "a": rec["a"], "b": rec["b"], "G": list(grp["g"]), "n": n, "h": grp["h"]}
        cv = self.curve
        rnd = self.rnd

        def exp(k: int) -> tuple[int, int]:
            return T[k % n]

        def chk(op: str, got: Any, want: tuple[int, int], args: Any, keyx: str = "") -> None:
            self.n += 1
            if not (isinstance(got, tuple) and len(got) == 2 and _same(got, want)):
                self.viol(f"{op}|{keyx}|a={'0' if rec['a'] == 0 else ('p-3' if rec['a'] == p - 3 else 'gen')}",
                          f"{op}{args} on y^2=x^3+{rec['a']}x+{rec['b']} mod {p} (G={grp['g']}, n={n}) = {got}, the group law gives {want}",
                          {"op": op, "curve": ctx, "args": args, "expected": list(want), "actual": str(got)})

        def call(fn: Any) -> Any:
            try:
                return fn()
            except Exception as e:  # noqa: BLE001
                return f"raised {type(e).__name__}: {e}"

        pts = list(range(n)) if (self.heavy or n <= 7) else sorted({0, 1, 2, n - 1, rnd.randrange(n), rnd.randrange(n)})
        ks = list(range(-2 * n, 3 * n + 1))
        for j in pts:
            P = T[j]
            for k in ks:
                chk("mult", call(lambda: cv.mult(k, P, ec)), exp(k * j), [k, list(P)], "P" if j != 1 else "G")
            if j:
                pp = call(lambda: cv.PreparedPoint(P, ec))
                if isinstance(pp, str):
                    self.viol("PreparedPoint|raised", f"PreparedPoint({P}) {pp}", {"curve": ctx, "args": [list(P)]})
                else:
                    for k in ks[:: 1 if n <= 7 else 3]:
                        chk("PreparedPoint.mult", call(lambda: pp.mult(k)), exp(k * j), [k, list(P)])
        for k in ks:
            chk("mult", call(lambda: cv.mult(k, None, ec)), exp(k), [k, None], "default G")
        # private single-scalar variants, Jacobian inputs with random Z (skipped with a note if refactored away)
        variants: list[tuple[str, Any]] = []
        for name, extra in (("_mult_recursive_jac_var", ()), ("_mult_jac_var", ()), ("_mult_mont_ladder_var", ()),
                            ("_mult_base_3_var", ()), ("_mult_fixed_window_var", (4, False)), ("_mult_fixed_window_var", (3, True)),
                            ("_mult_fixed_window_cached_var", (4,)), ("_mult_regular_window", (4,)), ("_mult_regular_window", (2,)),
                            ("_mult_fixed_base", (6,)), ("_mult_fixed_base", (3,)), ("_mult", ())):
            f = getattr(self.cg, name, None)
            if f is None:
                self.skipped.add(name)
                continue
            variants.append((name + (str(extra) if extra else ""), lambda m, QJ, f=f, extra=extra: f(m, QJ, ec, *extra)))
        for name in ("_mult_recursive_aff_var", "_mult_aff_var"):
            f = getattr(self.cg, name, None)
            if f is None:
                self.skipped.add(name)
                continue
            for j in pts:
                for m in range(0, n + 2):
                    chk(name, call(lambda: f(m, T[j], ec)), exp(m * j), [m, list(T[j])])

        def jac(P: tuple[int, int]) -> tuple[int, int, int]:
            if P[1] == 0:
                return (rnd.randrange(p), rnd.randrange(p), 0) if rnd.random() < 0.5 else (7, 0, 0)
            z = rnd.randrange(1, p)
            return (P[0] * z * z % p, P[1] * z * z * z % p, z)

        for vname, f in variants:
            for j in pts:
                for m in range(0, n + 1):
                    r = call(lambda: f(m, jac(T[j])))
                    got = call(lambda r=r: ec.aff_from_jac_var(r)) if isinstance(r, tuple) else r
                    chk(vname, got, exp(m * j), [m, list(T[j])])
        # double_mult_var: all (u, v, H, Q) for small n, samples above
        if n <= 7 or self.heavy and n <= 13:
            quads = [(u, v, i, j) for u in range(-1, n + 1) for v in range(0, n + 1) for i in range(n) for j in range(n)]
            if len(quads) > 6000:
                quads = rnd.sample(quads, 6000)
        else:
            quads = [(rnd.randrange(-n, 2 * n), rnd.randrange(-n, 2 * n), rnd.randrange(n), rnd.randrange(n)) for _ in range(300)]
            quads += [(u, v, i, j) for u in (0, 1, n - 1) for v in (0, 1, n - 1) for i in (0, 1) for j in (0, 1, n - 1)]
        for u, v, i, j in quads:
            chk("double_mult_var", call(lambda: cv.double_mult_var(u, T[i], v, T[j], ec)), exp(u * i + v * j),
                [u, list(T[i]), v, list(T[j])])
        f2 = getattr(self.cg, "_double_mult_var", None)
        if f2 is None:
            self.skipped.add("_double_mult_var")
        else:
            for u, v, i, j in quads[:400]:
                if u < 0 or v < 0:
                    continue
                r = call(lambda: f2(u, jac(T[i]), v, jac(T[j]), ec))
                chk("_double_mult_var", call(lambda r=r: ec.aff_from_jac_var(r)) if isinstance(r, tuple) else r,
                    exp(u * i + v * j), [u, list(T[i]), v, list(T[j])])
        # multi-scalar sums on both sides of the wNAF / Bos-Coster switch
        for t in (2, 3, 5, 55, 56, 57, 64, 128):
            for mode in ("random", "zeros", "inf", "repeat", "cancel"):
                if t > 5 and mode in ("inf", "repeat") and not self.heavy and n > 7:
                    continue
                js = [rnd.randrange(1, n) for _ in range(t)]
                us = [rnd.randrange(-n, 2 * n) for _ in range(t)]
                if mode == "zeros":
                    us = [u if rnd.random() < 0.5 else rnd.choice([0, n, -n]) for u in us]
                elif mode == "inf":
                    js = [j if rnd.random() < 0.6 else 0 for j in js]
                elif mode == "repeat":
                    js = [js[0]] * t
                elif mode == "cancel" and t >= 2:
                    us[-1] = 0
                    s = sum(u * j for u, j in zip(us, js)) % n
                    # last term cancels the partial sum: u_t * j_t = -s
                    us[-1] = (-s * pow(js[-1], -1, n)) % n
                want = exp(sum(u * j for u, j in zip(us, js)))
                Ps = [T[j] for j in js]
                chk("multi_mult_var", call(lambda: cv.multi_mult_var(us, Ps, ec)), want, [us[:8], [list(q) for q in Ps[:8]], t], f"t={'>=56' if t >= 56 else '<56'}|{mode}")
                for name, extra in (("_multi_mult_w_NAF_var", (4, frozenset())), ("_multi_mult_bos_coster_var", ()), ("_multi_mult_var", ())):
                    f = getattr(self.cg, name, None)
                    if f is None:
                        self.skipped.add(name)
                        continue
                    if t > 5 and not self.heavy and name != "_multi_mult_var" and mode not in ("random", "cancel"):
                        continue
                    r = call(lambda: f([u % n for u in us], [jac(q) for q in Ps], ec, *extra))
                    chk(name, call(lambda r=r: ec.aff_from_jac_var(r)) if isinstance(r, tuple) else r, want,
                        [us[:8], [list(q) for q in Ps[:8]], t], mode)
        # add / negate / sum / tweak
        for i in range(n):
            chk("negate", call(lambda: ec.negate(T[i])), exp(-i), [list(T[i])])
            for j in range(n):
                chk("add_var", call(lambda: ec.add_var(T[i], T[j])), exp(i + j), [list(T[i]), list(T[j])])
        sv = getattr(cv, "_sum_var", None)
        tw = getattr(cv, "_tweak_add_var", None)
        if sv is None:
            self.skipped.add("_sum_var")
        else:
            for _ in range(40):
                js = [rnd.randrange(n) for _ in range(rnd.randrange(0, 6))]
                if rnd.random() < 0.3 and js:
                    js.append((-sum(js)) % n)
                chk("_sum_var", call(lambda: sv([T[j] for j in js], ec)), exp(sum(js)), [[list(T[j]) for j in js]])
        if tw is None:
            self.skipped.add("_tweak_add_var")
        else:
            for j in range(n):
                for t in range(0, n):
                    chk("_tweak_add_var", call(lambda: tw(T[j], t, ec)), exp(j + t), [list(T[j]), t])
        batch = getattr(ec, "aff_from_jac_batch_var", None)
        if batch is not None:
            js = [rnd.randrange(1, n) for _ in range(6)]
            got = call(lambda: batch([jac(T[j]) for j in js]))
            self.n += 1
            if not (isinstance(got, list) and all(_same(g, T[j]) for g, j in zip(got, js))):
                self.viol("aff_from_jac_batch_var", f"aff_from_jac_batch_var gave {got}, expected {[T[j] for j in js]}", {"curve": ctx})
        # off-curve points are refused, not answered
        onc = {tuple(q) for q in rec["points"]}
        offs = [(x, y) for x in range(p) for y in range(1, p) if (x, y) not in onc]
        for Q in (offs if p <= 11 else rnd.sample(offs, 60)):
            for label, fn in (("mult", lambda: cv.mult(3, Q, ec)), ("double_mult_var", lambda: cv.double_mult_var(1, Q, 2, T[1], ec)),
                              ("double_mult_var/2", lambda: cv.double_mult_var(1, T[1], 2, Q, ec)),
                              ("multi_mult_var", lambda: cv.multi_mult_var([1, 2], [T[1], Q], ec)),
                              ("PreparedPoint", lambda: cv.PreparedPoint(Q, ec).mult(2)),
                              ("add_var/1", lambda: ec.add_var(Q, T[1])), ("add_var/2", lambda: ec.add_var(T[1], Q)),
                              ("add_var/inf", lambda: ec.add_var(INF, Q)), ("add_var/both", lambda: ec.add_var(Q, Q)),
                              ("multi_mult_var/1", lambda: cv.multi_mult_var([1, 2], [Q, T[1]], ec)),
                              ("double_mult_var/zero", lambda: cv.double_mult_var(0, Q, 2, T[1], ec))):
                self.n += 1
                ok, why = _refused(fn)
                if not ok:
                    self.viol(f"offcurve|{label}", f"{label} with the off-curve point {Q} on p={p} a={rec['a']} b={rec['b']}: {why}",
                              {"op": label, "curve": ctx, "args": [list(Q)]})
        self.sec_points(rec, grp, ec, T)

    def sec_points(self, rec: dict[str, Any], grp: dict[str, Any], ec: Any, T: list[tuple[int, int]]) -> None:
        from btclib.curves.sec_point import bytes_from_point, point_from_octets
        from btclib.exceptions import BTClibValueError

        p = rec["p"]
        ctx = {"p": p, "a": rec["a"], "b": rec["b"], "G": list(grp["g"]), "n": grp["n"], "h": grp["h"]}
        onc = {tuple(q) for q in rec["points"]}
        size = (p.bit_length() + 7) // 8
        for P in T[1:]:
            for comp in (True, False):
                want = (bytes([2 + (P[1] & 1)]) + P[0].to_bytes(size, "big")) if comp else \
                    (b"\x04" + P[0].to_bytes(size, "big") + P[1].to_bytes(size, "big"))
                self.n += 1
                try:
                    enc = bytes_from_point(P, ec, comp)
                    back = point_from_octets(enc, ec)
                except Exception as e:  # noqa: BLE001
                    enc, back = None, f"{type(e).__name__}: {e}"
                if enc != want or back != P:
                    self.viol(f"sec|roundtrip|comp={comp}", f"bytes_from_point({P}, comp={comp}) = {enc and enc.hex()}, SEC 1 gives {want.hex()}; decoded back {back}",
                              {"curve": ctx, "args": [list(P), comp], "expected": want.hex()})
                    continue
                # every one-byte edit decodes to a point of the curve that re-encodes to the same bytes, or is refused
                for pos in range(len(want)):
                    for delta in (1, 2, 0x80):
                        ed = bytearray(want)
                        ed[pos] = (ed[pos] + delta) & 0xFF
                        self.n += 1
                        try:
                            Q = point_from_octets(bytes(ed), ec)
                        except BTClibValueError:
                            continue
                        except Exception as e:  # noqa: BLE001
                            self.viol(f"sec|foreign|{type(e).__name__}", f"point_from_octets({bytes(ed).hex()}) raised {type(e).__name__}", {"curve": ctx})
                            continue
                        if tuple(Q) not in onc:
                            self.viol("sec|offcurve accepted", f"point_from_octets({bytes(ed).hex()}) on p={p} answered {Q}, not a point of the curve",
                                      {"curve": ctx, "args": [bytes(ed).hex()]})


# --------------------------------------------------------------------------------------


def real_events(run: Run, per_curve: int) -> list[dict[str, Any]]:
    from btclib.curves import CURVES, double_mult_var, mult, multi_mult_var, secp256k1, set_libsecp256k1_serving
    from btclib.curves.curve import PreparedPoint, is_libsecp256k1_serving
    from btclib.curves.sec_point import bytes_from_point

    rnd = random.Random(run.seed)
    evs: list[dict[str, Any]] = []

    def cv(ec: Any) -> dict[str, Any]:
        return {"p": nat(ec.p), "a": nat(ec._a), "b": nat(ec._b), "gx": nat(ec.G[0]), "gy": nat(ec.G[1]), "n": nat(ec.n), "h": nat(ec.cofactor)}

    def pt(P: Any) -> dict[str, Any]:
        return {"inf": 1} if P[1] == 0 else {"x": nat(P[0]), "y": nat(P[1])}

    def safe(fn: Any) -> Any:
        try:
            return fn()
        except Exception as e:  # noqa: BLE001
            return e

    for name, ec in CURVES.items():
        evs.append({"op": "curve", "name": name, "c": cv(ec)})
    start = is_libsecp256k1_serving()
    arms = [True, False] if start else [False]
    try:
        for name, ec in CURVES.items():
            c = cv(ec)
            big = ec.nlen > 300
            reps = max(2, per_curve // (4 if big else 1))
            scal = [0, 1, 2, ec.n - 1, ec.n, ec.n + 1, 2 * ec.n, (1 << (ec.nlen - 1)) - 1, (1 << (ec.nlen - 1)) + 1, 1 << ec.nlen]
            scal += [rnd.randrange(ec.n) for _ in range(reps)]
            P = mult(rnd.randrange(1, ec.n), ec=ec)
            Q = ec.negate(ec.G)
            for arm in (arms if ec == secp256k1 else [start]):
                if ec == secp256k1 and start:
                    set_libsecp256k1_serving(serving=arm)
                tag = f"{name}|{'bindings' if arm and ec == secp256k1 else 'python'}"
                for k in scal[: (len(scal) if not big else 12)]:
                    for pj, PP in (({"g": 1}, None), (pt(P), P), (pt(Q), Q)):
                        r = safe(lambda: mult(k, PP, ec))
                        if isinstance(r, Exception):
                            run.violation(f"ec|real|mult|raised|{name}", f"mult({k:#x}, {PP}) on {name} raised {type(r).__name__}: {r}", {"op": "mult", "curve": name})
                            continue
                        evs.append({"op": "lin", "tag": tag, "fn": "mult", "c": c, "ks": [nat(k % (1 << 600))], "ps": [pj], "out": pt(r)})
                for k in scal[3:9]:
                    r = safe(lambda: mult(-k, P, ec))
                    if not isinstance(r, Exception):
                        evs.append({"op": "lin", "tag": tag, "fn": "mult(-k)", "c": c, "ks": [nat((-k) % ec.n)], "ps": [pt(P)], "out": pt(r)})
                pp = PreparedPoint(P, ec)
                for k in scal[:: 3]:
                    evs.append({"op": "lin", "tag": tag, "fn": "PreparedPoint.mult", "c": c, "ks": [nat(k)], "ps": [pt(P)], "out": pt(pp.mult(k))})
                def answer(fn_name: str, thunk: Any) -> Any:
                    """The point a call answers, {"refused": 1} for the library's refusal; anything else is reported and the event dropped."""
                    from btclib.exceptions import BTClibException

                    try:
                        return pt(thunk())
                    except BTClibException:
                        return {"refused": 1}
                    except Exception as e:  # noqa: BLE001
                        run.violation(f"ec|real|{fn_name.split('[')[0]}|raised|{tag}|{type(e).__name__}", f"{fn_name} on {tag} raised {type(e).__name__}: {e}", {"op": fn_name, "curve": name})
                        return None

                # coefficients that are multiples of the order beside ones that are not, over points that are not infinity: the pairs a dispatch on "is it zero" must reduce first
                pairs = [(ec.n, 3), (3, ec.n), (2 * ec.n, 5), (ec.n, ec.n), (ec.n, 0), (0, 2 * ec.n), (ec.n + 1, ec.n - 1), (-ec.n, 7), (7, -3 * ec.n)]
                pairs += [(rnd.choice(scal), rnd.choice(scal)) for _ in range(max(2, reps // 3))]
                for jj, (u, v) in enumerate(pairs):
                    H, K = ([ec.G, P, Q][jj % 3], [P, Q, ec.G][jj % 3]) if jj < 9 else (rnd.choice([ec.G, P, Q]), rnd.choice([ec.G, P, Q, (5, 0)]))
                    out = answer("double_mult_var", lambda: double_mult_var(u, H, v, K, ec))
                    if out is not None:
                        evs.append({"op": "lin", "tag": tag, "fn": "double_mult_var", "c": c, "ks": [nat(u % ec.n), nat(v % ec.n)], "ps": [pt(H), pt(K)], "out": out})
                for t in ((2, 3, 57) if not big else (2, 3)):
                    us = [rnd.choice(scal[:9] + [rnd.randrange(ec.n)]) for _ in range(t)]
                    base = [ec.G, P, Q]
                    Ps = [rnd.choice(base) for _ in range(t)]
                    out = answer(f"multi_mult_var[{t}]", lambda: multi_mult_var(us, Ps, ec))
                    if out is not None:
                        evs.append({"op": "lin", "tag": tag, "fn": f"multi_mult_var[{t}]", "c": c, "ks": [nat(u) for u in us], "ps": [pt(q) for q in Ps], "out": out})
                # a point that is not on the curve is refused whatever its own scalar is -- zero, the order, a multiple of it, or anything else -- and wherever it stands
                off = (P[0], (P[1] + 1) % ec.p)
                for k_off in (0, ec.n, 2 * ec.n, 1, ec.n - 1):
                    for where in (0, 1, 2):
                        us = [2, 3, 5]
                        Ps = [ec.G, P, Q]
                        us[where], Ps[where] = k_off, off
                        for fn_name, thunk in ((f"multi_mult_var[3]", lambda: multi_mult_var(us, Ps, ec)),) + (((f"double_mult_var", lambda: double_mult_var(us[0], Ps[0], us[1], Ps[1], ec)),) if where < 2 else ()):
                            out = answer(fn_name, thunk)
                            nterm = 3 if fn_name.startswith("multi") else 2
                            if out is not None:
                                evs.append({"op": "lin", "tag": tag, "fn": fn_name + " (a point off the curve)", "c": c, "ks": [nat(u % ec.n) for u in us[:nterm]],
                                            "ps": [{"x": nat(q[0]), "y": nat(q[1])} for q in Ps[:nterm]], "out": out})
                for comp in (True, False):
                    evs.append({"op": "sec", "tag": tag, "c": c, "P": pt(P), "comp": comp, "out": bytes_from_point(P, ec, comp).hex()})
    finally:
        if start:
            set_libsecp256k1_serving(serving=start)
    return evs


# ---- caller-defined curves beyond the toy sizes (inputs are found here; TLC alone says whether a tuple is valid) ----


def _aff_add(P: Any, Q: Any, a: int, p: int) -> Any:
    if P is None:
        return Q
    if Q is None:
        return P
    if P[0] == Q[0]:
        if (P[1] + Q[1]) % p == 0:
            return None
        lam = (3 * P[0] * P[0] + a) * pow(2 * P[1], -1, p) % p
    else:
        lam = (Q[1] - P[1]) * pow(Q[0] - P[0], -1, p) % p
    x = (lam * lam - P[0] - Q[0]) % p
    return x, (lam * (P[0] - x) - P[1]) % p


def _aff_mul(k: int, P: Any, a: int, p: int) -> Any:
    R = None
    while k:
        if k & 1:
            R = _aff_add(R, P, a, p)
        P = _aff_add(P, P, a, p)
        k >>= 1
    return R


def _isprime(n: int) -> bool:
    if n < 2:
        return False
    for q in (2, 3, 5, 7, 11, 13, 17, 19, 23, 29, 31, 37):
        if n % q == 0:
            return n == q
    d, r = n - 1, 0
    while d % 2 == 0:
        d, r = d // 2, r + 1
    for a in (2, 3, 5, 7, 11, 13, 17, 19, 23, 29, 31, 37):
        x = pow(a, d, n)
        if x in (1, n - 1):
            continue
        for _ in range(r - 1):
            x = x * x % n
            if x == n - 1:
                break
        else:
            return False
    return True


def _sqrt_mod(a: int, p: int) -> int | None:
    if a % p == 0:
        return 0
    if pow(a, (p - 1) // 2, p) != 1:
        return None
    if p % 4 == 3:
        return pow(a, (p + 1) // 4, p)
    for y in range(1, p):   # only used for the small primes below
        if y * y % p == a % p:
            return y
    return None


def candidate_tuples(rnd: random.Random, thorough: bool) -> list[dict[str, Any]]:
    """(p, a, b, G, n, h) tuples with a prime-order subgroup: mid-size fields and the quadratic twist of secp256k1."""
    out = []
    for p in ([101, 251, 1009, 10007] if thorough else [101, 1009]):
        found = 0
        tries = 0
        want = {1: 2, 2: 2, 3: 1, 4: 1}
        while sum(want.values()) > 0 and tries < 400:
            tries += 1
            a, b = rnd.randrange(p), rnd.randrange(1, p)
            if (4 * a**3 + 27 * b * b) % p == 0:
                continue
            card = p + 1 + sum(-1 if (v := (x**3 + a * x + b) % p) and pow(v, (p - 1) // 2, p) != 1 else (1 if v else 0) for x in range(p))
            for h in (1, 2, 3, 4):
                if want.get(h, 0) and card % h == 0 and _isprime(card // h) and card // h > 2:
                    n = card // h
                    for x in range(p):
                        y = _sqrt_mod((x**3 + a * x + b) % p, p)
                        if y:
                            G = _aff_mul(h, (x, y), a, p)
                            if G is not None and _aff_mul(n, G, a, p) is None:
                                out.append({"p": p, "a": a, "b": b, "G": G, "n": n, "h": h, "label": f"p={p} h={h}"})
                                want[h] -= 1
                                found += 1
                                break
                    break
    # the quadratic twist of secp256k1: y^2 = x^3 + 2 over the same prime, order 2(p+1) - n
    P256 = 0xFFFFFFFFFFFFFFFFFFFFFFFFFFFFFFFFFFFFFFFFFFFFFFFFFFFFFFFEFFFFFC2F
    N256 = 0xFFFFFFFFFFFFFFFFFFFFFFFFFFFFFFFEBAAEDCE6AF48A03BBFD25E8CD0364141
    card = 2 * (P256 + 1) - N256
    rest, h = card, 1
    q = 2
    while q < 200000 and not _isprime(rest):
        while rest % q == 0 and not _isprime(rest):
            rest //= q
            h *= q
        q += 1
    if _isprime(rest):
        for x in range(1, 50):
            y = _sqrt_mod((x**3 + 2) % P256, P256)
            if y:
                G = _aff_mul(h, (x, y), 0, P256)
                if G is not None and _aff_mul(rest, G, 0, P256) is None:
                    out.append({"p": P256, "a": 0, "b": 2, "G": G, "n": rest, "h": h, "label": "secp256k1 quadratic twist"})
                    break
    return out


def caller_defined_events(run: Run, rnd: random.Random, thorough: bool) -> list[dict[str, Any]]:
    from btclib.curves import double_mult_var, mult, multi_mult_var
    from btclib.curves.curve import Curve, PreparedPoint
    from btclib.exceptions import BTClibValueError

    evs: list[dict[str, Any]] = []

    def cj(t: dict[str, Any], **over: Any) -> dict[str, Any]:
        d = {**t, **over}
        return {"p": nat(d["p"]), "a": nat(d["a"]), "b": nat(d["b"]), "gx": nat(d["G"][0]), "gy": nat(d["G"][1]), "n": nat(d["n"]), "h": nat(d["h"])}

    def pt(P: Any) -> dict[str, Any]:
        return {"inf": 1} if P[1] == 0 else {"x": nat(P[0]), "y": nat(P[1])}

    for t in candidate_tuples(rnd, thorough):
        variants = [("as found", {}), ("cofactor + 1", {"h": t["h"] + 1}), ("n replaced by a multiple", {"n": t["n"] * 2}),
                    ("G not on the curve", {"G": (t["G"][0], (t["G"][1] + 1) % t["p"])}), ("b + 1", {"b": (t["b"] + 1) % t["p"]}),
                    # the generator spelled as the point at infinity in each of its spellings (any x over y = 0), not only the constant the library names
                    ("G = (x_G, 0)", {"G": (t["G"][0], 0)}), ("G = (1, 0)", {"G": (1, 0)}), ("G = (0, 0)", {"G": (0, 0)}), ("G = (5, 0)", {"G": (5, 0)}),
                    ("G = (x_G, p - y_G)", {"G": (t["G"][0], t["p"] - t["G"][1])}), ("G = (x_G + p, y_G)", {"G": (t["G"][0] + t["p"], t["G"][1])}), ("n = 1", {"n": 1})]
        for vlabel, over in variants:
            d = {**t, **over}
            if d["h"] < 1:
                continue
            try:
                ec = Curve(d["p"], d["a"], d["b"], d["G"], d["n"], d["h"], weakness_check=False)
                acc = True
            except BTClibValueError:
                acc, ec = False, None
            except Exception as e:  # noqa: BLE001
                run.violation(f"ec|Curve|foreign|{type(e).__name__}", f"Curve({t['label']}, {vlabel}) raised {type(e).__name__}: {e}", {"tuple": str(d)})
                continue
            evs.append({"op": "curve_accept", "name": f"{t['label']} / {vlabel}", "tag": t["label"], "c": cj(d), "accepted": acc})
            if ec is None or vlabel != "as found":
                continue
            c = cj(d)
            n = d["n"]
            Pp = mult(rnd.randrange(2, n), ec=ec)
            Qq = mult(rnd.randrange(2, n), ec=ec)
            scal = [0, 1, 2, n - 1, n, n + 1, 0xDEADBEEF % n, (2**126 + 12345) % n, (2**130 + 7) % n, (1 << (n.bit_length() - 1)) % n, rnd.randrange(n), rnd.randrange(n)]
            for k in scal:
                for pj, PP in (({"g": 1}, None), (pt(Pp), Pp)):
                    evs.append({"op": "lin", "tag": t["label"], "fn": "mult", "c": c, "ks": [nat(k)], "ps": [pj], "out": pt(mult(k, PP, ec))})
                evs.append({"op": "lin", "tag": t["label"], "fn": "PreparedPoint.mult", "c": c, "ks": [nat(k)], "ps": [pt(Qq)], "out": pt(PreparedPoint(Qq, ec).mult(k))})
            for _ in range(6):
                u, v = rnd.choice(scal), rnd.choice(scal)
                evs.append({"op": "lin", "tag": t["label"], "fn": "double_mult_var", "c": c, "ks": [nat(u), nat(v)], "ps": [pt(Pp), pt(Qq)],
                            "out": pt(double_mult_var(u, Pp, v, Qq, ec))})
            us = [rnd.choice(scal) for _ in range(4)]
            evs.append({"op": "lin", "tag": t["label"], "fn": "multi_mult_var[4]", "c": c, "ks": [nat(u) for u in us], "ps": [pt(Pp), pt(Qq), pt(ec.G), pt(Pp)],
                        "out": pt(multi_mult_var(us, [Pp, Qq, ec.G, Pp], ec))})
    return evs


def check(run: Run) -> None:
    thorough = run.tier == "thorough"
    rnd = random.Random(run.seed)
    run.rule = ("toy: every curve y^2=x^3+ax+b over F_p for the stated primes, every prime order n>2 in its group, two generators "
                "each; per accepted (curve, G): all k in [-2n,3n] x points, every private multiplication variant, double/multi-scalar "
                "sums across the Bos-Coster threshold, off-curve refusals, SEC 1 octets; real size: 27 catalogued curves. "
                "Non-trivial = a (curve, generator) pair btclib accepted, or a real-size event with a non-zero scalar")
    run.assumptions = ["the affine chord-and-tangent law of spec/ECGroup.tla is the definition of the group",
                       "points outside <G> on curves with cofactor > 1 are not multiplied (mult reduces scalars mod n)"]
    # ---- M ----
    res = tlc.run("ECToy", cfg_text=TOY_CFG.format(maxp=13 if thorough else 7, assocp=11 if thorough else 7))
    run.tlc(res, "M ECToy group laws")
    for v in res.violations:
        raise tlc.TLCFailure(f"ECToy: the group-law definitions violate {v.name}: {v.text[:800]}")
    # ---- G: number theory ----
    rows = nt_tables(run, 400 if thorough else 120)
    n_nt = check_number_theory(run, rows)
    # ---- G: toy curves ----
    primes = [5, 7, 11, 13, 17, 19, 23] if thorough else [5, 7, 11]
    recs = gen_tables(run, primes)
    rp = ToyReplayer(run, rnd, heavy=thorough)
    for rec in recs:
        for grp in rec["groups"]:
            rp.curve_tuple(rec, grp)
    if rp.accepted < 20:
        raise tlc.TLCFailure(f"C01: only {rp.accepted} toy curves were accepted by Curve(...): nothing to compare (vacuous)")
    if rp.skipped:
        run.note("private helpers not present (skipped): " + ", ".join(sorted(rp.skipped)))
    run.section("toy", {"primes": primes, "curves": len(recs), "curve_generator_pairs": sum(len(r["groups"]) for r in recs),
                        "accepted": rp.accepted, "sec1_valid_but_refused": rp.valid_refused, "calls": rp.n})
    run.sample({"toy curve": {k: recs[len(recs) // 2][k] for k in ("p", "a", "b", "card")},
                "group": recs[len(recs) // 2]["groups"][:1]})
    # ---- V: real size ----
    evs = real_events(run, 40 if thorough else 6)
    evs += caller_defined_events(run, rnd, thorough)
    results, bad, diag = events.validate("C01Trace", evs)
    for r in results:
        run.tlc(r, "V C01Trace")
    for k in bad:
        e = evs[k]
        key = f"ec|real|{e['op']}|{e.get('fn', '')}|{e.get('tag', e.get('name', ''))}"
        run.violation(key, f"{e.get('fn', e['op'])} on {e.get('tag', e.get('name'))}: btclib's answer is not what the group law gives",
                      {"event": e, "spec": diag.get(k)})
    run.sample({"real-size event": {k: v for k, v in evs[40].items() if k != "c"}})
    run.count(evaluations=n_nt + rp.n + len(evs), validated=rp.accepted + len(evs) + len(rows),
              nontrivial=rp.accepted + sum(1 for e in evs if e["op"] == "lin" and any(k for k in e["ks"])))
    run.section("real", {"events": len(evs), "rejected": len(bad)})


def replay(path: str) -> int:
    body = json.load(open(path))
    from ..core import Run as _Run

    run = _Run("C01", "quick")
    run.findings = []
    if "event" in body:
        _, bad, diag = events.validate("C01Trace", [body["event"]])
        if bad:
            print(f"VIOLATION property=C01 replay={path}  # {diag}")
            return 1
        return 0
    print("replay: re-run ./check C01 --tier quick (toy-curve violations are reproduced by the generator)")
    core_rc = 0
    return core_rc
