"""C12 -- taproot outputs commit to exactly their key and script tree.

Spec: Taproot (BIP341 leaf/branch hashes with sorted children, tweak, output key and parity, tweaked private key,
control blocks and their verification), TaprootModel (M: on every tree shape up to 4 leaves, incl. repeated leaves,
every leaf's control block verifies and no other (leaf, path) pairing does), C12Trace (V).
"""

from __future__ import annotations

import json
import random
from typing import Any

from .. import events, tlc
from ..core import Run, nat

MODEL_CFG = """SPECIFICATION MSpec
INVARIANT EveryLeafProves
INVARIANT NoCrossProof
INVARIANT PrvMatchesPub
CHECK_DEADLOCK FALSE
"""


def _x(fn: Any) -> Any:
    from btclib.exceptions import BTClibException

    try:
        return ("ok", fn())
    except BTClibException:
        return ("refused", None)
    except Exception as e:  # noqa: BLE001
        return ("foreign", f"{type(e).__name__}: {e}"[:100])


def rand_tree(r: random.Random, leaves: int, scripts: list[list[Any]], shape: str) -> Any:
    """A btclib TaprootScriptTree (nested lists) with the given number of leaves."""
    def leaf() -> Any:
        return [(r.choice([0xC0, 0xC0, 0xC0, 0xC2, 0xFA]), r.choice(scripts))]

    if leaves == 1:
        return leaf()
    if shape == "left":
        return [rand_tree(r, leaves - 1, scripts, shape), leaf()]
    if shape == "right":
        return [leaf(), rand_tree(r, leaves - 1, scripts, shape)]
    if shape == "twins":
        # a branch whose two children are the same subtree (the same leaf beside itself when there are two leaves): BIP341 hashes 64 bytes all the same
        sub = rand_tree(r, max(1, leaves // 2), scripts, "random")
        return [sub, sub]
    if shape == "twins below":
        sub = rand_tree(r, max(1, (leaves - 1) // 2), scripts, "random")
        return [leaf(), [sub, sub]]
    k = r.randrange(1, leaves) if shape == "random" else leaves // 2
    return [rand_tree(r, k, scripts, shape), rand_tree(r, leaves - k, scripts, shape)]


def tree_json(tree: Any) -> Any:
    from btclib.script import taproot

    if len(tree) == 1:
        v, s = tree[0]
        return {"v": v, "s": taproot.serialize(s).hex()}
    return {"l": tree_json(tree[0]), "r": tree_json(tree[1])}


def n_leaves(tree: Any) -> int:
    return 1 if len(tree) == 1 else n_leaves(tree[0]) + n_leaves(tree[1])


def record(run: Run, n_trees: int, flips: int) -> list[dict[str, Any]]:
    from btclib.curves import mult, secp256k1, set_libsecp256k1_serving
    from btclib.curves.curve import is_libsecp256k1_serving
    from btclib.script import taproot

    r = random.Random(run.seed + 12)
    evs: list[dict[str, Any]] = []
    scripts: list[list[Any]] = [["OP_1"], ["OP_2", "OP_DROP", "OP_1"], [bytes(range(32)).hex(), "OP_CHECKSIG"], ["OP_1"], ["OP_RETURN"],
                                [("ab" * 300)], ["OP_IF", "OP_1", "OP_ELSE", "OP_0", "OP_ENDIF"],
                                # leaf scripts of 252, 253, 254 and 256 bytes: on either side of the one-byte compact size of the tapleaf hash
                                [("ab" * 250)], [("ab" * 251)], [("ab" * 252)], [("ab" * 254)]]
    start = is_libsecp256k1_serving()
    shapes = ["left", "right", "balanced", "random", "twins", "twins below"]
    try:
        for t in range(n_trees):
            arm = (t % 2 == 0) if start else False
            if start:
                set_libsecp256k1_serving(serving=arm)
            tag = "bindings" if arm else "python"
            d = r.choice([1, 2, secp256k1.n - 1, r.randrange(1, secp256k1.n)])
            P = mult(d)
            # every accepted spelling of the internal key names the same x-only key
            spell = r.choice(["sec-even", "sec-as-is", "uncompressed", "point", "prvkey-int", "prvkey-bytes"])
            if spell == "prvkey-int":
                key: Any = d            # a Key is anything convertible: a private key names its public key
            elif spell == "prvkey-bytes":
                key = d.to_bytes(32, "big")
            elif spell == "sec-even":
                key = b"\x02" + P[0].to_bytes(32, "big")
            elif spell == "sec-as-is":
                key = bytes([2 + (P[1] & 1)]) + P[0].to_bytes(32, "big")
            elif spell == "uncompressed":
                key = b"\x04" + P[0].to_bytes(32, "big") + P[1].to_bytes(32, "big")
            else:
                key = P
            nl = r.choice([0, 1, 2, 3, 4, 5, 8]) if t % 7 else r.choice([16, 40])
            if t in (3, 5):
                nl = 129                     # a comb whose deepest leaf sits at depth 128, the most a control block can prove
            shape = shapes[t % 6] if nl < 16 else r.choice(["left", "right"])
            if shape.startswith("twins") and nl < 2:
                nl = 2 if shape == "twins" else 3
            # (the first four trees draw every leaf from one of the boundary-length scripts, whatever the seed)
            pool = [scripts[7 + t]] if t < 4 and t not in (3,) else ([scripts[10]] + scripts[:3] if t == 6 else scripts)
            tree = rand_tree(r, nl, pool, shape) if nl else None
            tj = tree_json(tree) if tree else {"none": 1}
            base = {"tag": tag, "spelling": spell, "shape": f"{shape}/{nl}", "px": nat(P[0]), "tree": tj}
            res = _x(lambda: taproot.output_pubkey(key, tree))
            out: Any = {"refused": True} if res[0] == "refused" else ({"q": res[1][0].hex(), "parity": res[1][1]} if res[0] == "ok" else {"foreign": res[1]})
            evs.append({**base, "op": "output_pubkey", "out": out})
            res2 = _x(lambda: taproot.output_prvkey(d, tree))
            evs.append({**base, "op": "output_prvkey", "d": nat(d), "out": {"refused": True} if res2[0] == "refused" else
                        ({"k": res2[1].to_bytes(32, "big").hex()} if res2[0] == "ok" else {"foreign": res2[1]})})
            h = taproot.tree_helper(tree)[1] if tree else b""
            rr = _x(lambda: taproot.output_pubkey_from_merkle_root(P[0].to_bytes(32, "big"), h))
            evs.append({**base, "op": "output_pubkey", "fn": "output_pubkey_from_merkle_root", "out": {"refused": True} if rr[0] == "refused" else
                        ({"q": rr[1][0].hex(), "parity": rr[1][1]} if rr[0] == "ok" else {"foreign": rr[1]})})
            if res[0] != "ok" or not tree:
                continue
            q = res[1][0]
            leaves = n_leaves(tree)
            idxs = range(leaves) if leaves <= 8 else sorted({0, 1, leaves // 2, leaves - 1})
            for j in idxs:
                rc = _x(lambda: taproot.input_script_sig(key, tree, j))
                if rc[0] != "ok":
                    evs.append({**base, "op": "control", "j": j, "out": {"refused": True} if rc[0] == "refused" else {"foreign": rc[1]}})
                    continue
                script_b = taproot.serialize(rc[1][0])
                control = rc[1][1]
                evs.append({**base, "op": "control", "j": j, "out": {"c": control.hex(), "s": script_b.hex()}})

                def chk(qq: bytes, ss: bytes, cc: bytes, why: str) -> None:
                    rk = _x(lambda: taproot.check_output_pubkey(qq, ss, cc))
                    val: Any = {"ok": bool(rk[1])} if rk[0] == "ok" else ({"ok": False} if rk[0] == "refused" else {"foreign": rk[1]})
                    evs.append({"op": "check", "tag": tag, "why": why, "q": qq.hex(), "script": ss.hex(), "control": cc.hex(), "out": val})

                chk(q, script_b, control, "honest")
                # single-bit alterations of control block / script / output key, truncation and extension by 32 bytes
                for _ in range(flips):
                    which = r.choice(["control", "control", "script", "q"])
                    if which == "control":
                        pos = r.randrange(len(control) * 8)
                        cc = bytearray(control)
                        cc[pos // 8] ^= 1 << (pos % 8)
                        chk(q, script_b, bytes(cc), f"control bit {pos}")
                    elif which == "script":
                        pos = r.randrange(len(script_b) * 8)
                        ss = bytearray(script_b)
                        ss[pos // 8] ^= 1 << (pos % 8)
                        chk(q, bytes(ss), control, "script bit")
                    else:
                        pos = r.randrange(256)
                        qq = bytearray(q)
                        qq[pos // 8] ^= 1 << (pos % 8)
                        chk(bytes(qq), script_b, control, "output key bit")
                for b in (0, 1, 2, 7):
                    cc = bytearray(control)
                    cc[0] ^= 1 << b
                    chk(q, script_b, bytes(cc), f"control first byte bit {b}")
                if len(control) > 33:
                    chk(q, script_b, control[:-32], "control truncated by 32")
                chk(q, script_b, control + bytes(32), "control extended by 32")
                # a leaf paired with another leaf's path
                if leaves > 1:
                    other = _x(lambda: taproot.input_script_sig(key, tree, (j + 1) % leaves))
                    if other[0] == "ok" and (taproot.serialize(other[1][0]), other[1][1]) != (script_b, control):
                        chk(q, script_b, other[1][1], "another leaf's control block")
        # an internal key that is not on the curve is refused; the unspendable default key is accepted
        for badx in (bytes(32), b"\xff" * 32, (5).to_bytes(32, "big"), secp256k1.p.to_bytes(32, "big")):
            bad = b"\x02" + badx
            res = _x(lambda: taproot.output_pubkey(bad, None))
            evs.append({"op": "output_pubkey", "tag": "python", "px": nat(int.from_bytes(badx, "big")), "tree": {"none": 1},
                        "out": {"refused": True} if res[0] == "refused" else ({"q": res[1][0].hex(), "parity": res[1][1]} if res[0] == "ok" else {"foreign": res[1]})})
    finally:
        if start:
            set_libsecp256k1_serving(serving=start)
    return evs


def record_descriptor_route(run: Run, n_idx: int) -> list[dict[str, Any]]:
    """Control blocks handed out by tr() descriptors (taproot_leaf_scripts / satisfy) at several indexes: 'check' events."""
    from btclib.bip32.bip32 import derive, rootxprv_from_seed, xpub_from_xprv
    from btclib.descriptors import parse
    from btclib.to_pub_key import pub_keyinfo_from_key

    r = random.Random(run.seed + 120)
    evs: list[dict[str, Any]] = []
    root = rootxprv_from_seed(r.randbytes(32))
    acct = xpub_from_xprv(derive(root, "m/86h/0h/0h"))

    def xo(path: str) -> str:
        return pub_keyinfo_from_key(derive(acct, path))[0][1:].hex()

    texts = {
        "fixed": f"tr({xo('m/9/9')},{{pk({xo('m/8/8')}),pk({acct}/7/7)}})",
        "ranged leaves": f"tr({xo('m/9/9')},{{pk({acct}/1/*),pk({acct}/2/*)}})",
        "ranged internal key": f"tr({acct}/0/*,{{pk({acct}/1/*),{{pk({acct}/2/*),pk({acct}/3/*)}}}})",
        "left comb": f"tr({acct}/0/*,{{{{pk({acct}/1/*),pk({acct}/2/*)}},pk({acct}/3/*)}})",
    }
    for name, text in texts.items():
        try:
            d = parse(text)
        except Exception as e:  # noqa: BLE001
            run.note(f"descriptor route: {name} not parsed ({type(e).__name__})")
            continue
        idxs = [0] if name == "fixed" else sorted({0, 1, 2, r.randrange(3, 1000), 2**31 - 1})[: n_idx]
        for i in idxs:
            try:
                q = d.script_pub_key(i).script[2:]
                leaf_scripts = d.taproot_leaf_scripts(i)
            except Exception as e:  # noqa: BLE001
                run.note(f"descriptor route: {name}@{i}: {type(e).__name__}")
                continue
            for control, (script, _version) in leaf_scripts.items():
                evs.append({"op": "check", "tag": "descriptor", "why": f"tr() {name} @ index class {'0' if i == 0 else 'n'}", "q": q.hex(), "script": bytes(script).hex(),
                            "control": bytes(control).hex(), "out": {"ok": True}})
    return evs


def check(run: Run) -> None:
    thorough = run.tier == "thorough"
    run.rule = ("internal keys in every accepted spelling and both parities x trees of 0..8 leaves (left combs, right combs, balanced, random; repeated "
                "leaves; leaf versions c0/c2/fa) and deep combs of 16/40 leaves x every leaf index: output key, tweaked private key and control "
                "block recomputed; then single-bit alterations of control block / script / output key, first-byte bits, +-32 bytes, another "
                "leaf's path: all must fail. Both arms. Non-trivial = a check event")
    run.assumptions = ["a refusal of check_output_pubkey counts as 'does not verify' (totality is C19's)",
                       "leaf scripts are serialized by the library (script serialization is C05/C08's subject)"]
    res = tlc.run("TaprootModel", cfg_text=MODEL_CFG, workers=8)
    run.tlc(res, "M TaprootModel")
    for v in res.violations:
        raise tlc.TLCFailure(f"TaprootModel violates {v.name}:\n{v.text[:700]}")
    evs = record(run, 80 if thorough else 14, 40 if thorough else 6)
    evs += record_descriptor_route(run, 5 if thorough else 3)
    for e in evs:
        if isinstance(e["out"], dict) and "foreign" in e["out"]:
            run.violation(f"taproot|{e['op']}|foreign|{e['out']['foreign'].split(':')[0]}", f"{e['op']} raised {e['out']['foreign']}", {"event": e})
    evs2 = [e for e in evs if "foreign" not in e["out"]]
    results, bad, diag = events.validate("C12Trace", evs2, batch=600)
    for r in results:
        run.tlc(r, "V C12Trace")
    for k in bad:
        e = evs2[k]
        run.violation(f"taproot|{e['op']}|{e.get('why', e.get('shape', '')).rstrip('0123456789 ')}|{e.get('tag', '')}",
                      f"{e['op']} ({e.get('why', e.get('shape', ''))}, {e.get('tag', '')}): btclib {str(e['out'])[:120]}, BIP341 gives {str(diag.get(k))[:120]}",
                      {"event": e, "spec": diag.get(k)})
    # the engine's own use of the commitment: taproot script-path spends, honest and altered, all leaf versions
    from . import c08

    r8 = random.Random(run.seed + 128)
    spends = []
    for _ in range(400 if thorough else 80):
        prog = r8.choice([b"\x51", b"\x51", b"\x52\x75\x51", b"\x00"])
        spends.append(c08.tapscript_spend(r8, prog, [], ["P2SH", "TAPROOT", "WITNESS"] + (["DISCOURAGE_UPGRADABLE_TAPROOT_VERSION"] if r8.random() < 0.2 else []),
                                          (2, 0, 0xFFFFFFFF)))
    # the limits of the commitment as the engine applies them: a leaf at the deepest level (128) and one past it, leaf scripts on either side of the
    # 520 bytes that bound a stack element and do not bound a leaf script
    for depth in (0, 1, 127, 128, 129):
        for prog in (b"\x51", b"\x61" * 519 + b"\x51", b"\x61" * 520 + b"\x51", b"\x61" * 2000 + b"\x51", b"\x4d\x08\x02" + bytes(520) + b"\x75\x51"):
            spends.append(c08.tapscript_spend(r8, prog, [], ["P2SH", "TAPROOT", "WITNESS"], (2, 0, 0xFFFFFFFF), path_len=depth))
    # the byte 0xff in a branch nothing takes (once a finding, repaired by 773acd7b) is always in the corpus, whatever the seed
    listed = c08.tapscript_spend(r8, b"\x00\x63\xff\x68\x51", [], ["P2SH", "TAPROOT", "WITNESS"], (2, 0, 0xFFFFFFFF), path_len=1)
    listed["why"] = "honest"
    spends.append(listed)
    spends = [e for e in spends if not isinstance(e["ok"], str)]
    res8, bad8, diag8 = events.validate("C08Trace", spends, batch=600)
    for r in res8:
        run.tlc(r, "V engine route (C08Trace)")
    for k in bad8:
        e = spends[k]
        d = diag8.get(k) or {}
        # (the corner of the tapscript the spend sits on is part of the key: the engine route shares C08's corpus, and with it the 0xff corner)
        corner = c08.tapscript_class(e)
        run.violation(f"taproot|engine|{e.get('why', '')}|{d.get('verdict', '?') if isinstance(d, dict) else '?'}|code={'accepts' if e['ok'] else 'refuses'}" + (f"|{corner}" if corner else ""),
                      f"verify_input on a taproot script-path spend ({e.get('why')}): btclib {'accepts' if e['ok'] else 'refuses'}, BIP341 gives {d}", {"event": e, "spec": d})
    run.section("engine_route", {"spends": len(spends), "accepted": sum(1 for e in spends if e["ok"])})
    run.sample({k: (v if k != "tree" else "...") for k, v in evs2[0].items()})
    run.sample(next(e for e in evs2 if e["op"] == "check" and e["why"] != "honest"))
    run.section("ops", {op: sum(1 for e in evs2 if e["op"] == op) for op in ("output_pubkey", "output_prvkey", "control", "check")})
    run.count(evaluations=len(evs), validated=len(evs2), nontrivial=sum(1 for e in evs2 if e["op"] == "check"))


def replay(path: str) -> int:
    body = json.load(open(path))
    e = body.get("event")
    if not e:
        return 0
    _, bad, diag = events.validate("C12Trace", [e])
    if bad:
        print(f"VIOLATION property=C12 replay={path}  # {diag}")
        return 1
    return 0
