"""C04 -- the libsecp256k1 and pure-Python backends are observationally identical.

Spec: Backend (design model), PurityTrace (trace validation: one unlogged F must explain the outcome of every call on
both arms -- same value byte for byte, same verdict, same exception class).
Every dual-path entry point is called with valid arguments and with each argument malformed one way, first with the
bindings serving, then switched off (and in histories that flip in between).
"""

from __future__ import annotations

import hashlib
import json
import random
from typing import Any, Callable

from .. import tlc
from ..core import Run
from . import c20_purity


def outcome(fn: Callable[[], Any]) -> str:
    try:
        v = fn()
    except Exception as e:  # noqa: BLE001
        return "ERR:" + type(e).__name__
    return "OK:" + hashlib.sha256(repr(v).encode()).hexdigest()[:20]


def calls(seed: int) -> dict[str, Callable[[], Any]]:
    """(op|args) -> thunk.  Arguments are fixed at construction so that both arms see the same bytes."""
    from btclib import b32, b58  # noqa: F401
    from btclib.bip32 import bip32
    from btclib.curves import double_mult_var, mult, multi_mult_var, secp256k1 as ec
    from btclib.curves.sec_point import bytes_from_point, point_from_octets
    from btclib.ecc import bms, dh, dsa, ellswift, musig2, ssa
    from btclib.script import taproot
    from btclib import silent_payments as sp
    from btclib.tx import OutPoint

    r = random.Random(seed)
    c: dict[str, Callable[[], Any]] = {}
    n, p = ec.n, ec.p
    q = r.randrange(1, n)
    Q = mult(q)
    q2 = r.randrange(1, n)
    Q2 = mult(q2)
    xoff = next(x for x in range(2, 100) if pow((x**3 + 7) % p, (p - 1) // 2, p) != 1)
    h32 = hashlib.sha256(b"c04").digest()
    sec = bytes_from_point(Q)
    sec_u = bytes_from_point(Q, compressed=False)
    hybrid = bytes([6 + (Q[1] & 1)]) + sec_u[1:]
    bad_points: dict[str, Any] = {"off-curve": (Q[0], (Q[1] + 1) % p), "inf": (5, 0), "x>=p": (Q[0] + p, Q[1]) if Q[0] + p < 2**256 else (p, 1),
                                  "y=p": (Q[0], p), "neg": (-1, 5)}
    scalars = {"0": 0, "1": 1, "n-1": n - 1, "n": n, "n+1": n + 1, "2^256-1": 2**256 - 1, "rnd": r.randrange(n), "neg": -5}
    for sn, k in scalars.items():
        c[f"mult|G|{sn}"] = lambda k=k: mult(k)
        c[f"mult|Q|{sn}"] = lambda k=k: mult(k, Q)
        c[f"double_mult_var|{sn}"] = lambda k=k: double_mult_var(k, Q, 7, Q2)
        c[f"multi_mult_var|{sn}"] = lambda k=k: multi_mult_var([k, 3, 5], [Q, Q2, ec.G])
    for bn, P in bad_points.items():
        c[f"mult|{bn}"] = lambda P=P: mult(3, P)
        c[f"double_mult_var|{bn}"] = lambda P=P: double_mult_var(3, P, 4, Q)
        c[f"double_mult_var|2nd {bn}"] = lambda P=P: double_mult_var(3, Q, 4, P)
        c[f"multi_mult_var|{bn}"] = lambda P=P: multi_mult_var([3, 4], [Q, P])
    octs = {"compressed": sec, "uncompressed": sec_u, "hybrid": hybrid, "33 bytes prefix 04": b"\x04" + sec[1:], "x not on curve": b"\x02" + xoff.to_bytes(32, "big"),
            "x=p": b"\x02" + p.to_bytes(32, "big"), "65 bytes off-curve": b"\x04" + sec_u[1:33] + bytes(31) + b"\x01", "empty": b"", "prefix 05": b"\x05" + sec[1:],
            "64 bytes": sec_u[1:]}
    for on, o in octs.items():
        c[f"point_from_octets|{on}"] = lambda o=o: point_from_octets(o)
        c[f"point_from_octets(hybrid=True)|{on}"] = lambda o=o: point_from_octets(o, hybrid=True)
    # ---- ECDSA ----
    sig = dsa.sign_(h32, q)
    der = sig.serialize()
    highs = dsa.Sig(sig.r, n - sig.s, check_validity=False)
    sigs: dict[str, Any] = {"valid": sig, "der bytes": der, "high-s": highs, "r=0": dsa.Sig(0, sig.s, check_validity=False), "s=n": dsa.Sig(sig.r, n, check_validity=False),
                            "r=n-1": dsa.Sig(n - 1, sig.s, check_validity=False), "unparseable": b"\x30\x02\x01\x01", "trailing": der + b"\x00", "empty": b"",
                            "swapped": dsa.Sig(sig.s, sig.r, check_validity=False), "r=p-ish": dsa.Sig(p % n, 5, check_validity=False)}
    keys: dict[str, Any] = {"point": Q, "sec": sec, "uncompressed": sec_u, "hybrid": hybrid, "other": Q2, "off-curve": bad_points["off-curve"], "inf": (5, 0),
                            "x only 32 bytes": sec[1:], "33 bytes prefix 04": b"\x04" + sec[1:]}
    for sn, s in sigs.items():
        for kn, k in keys.items():
            c[f"dsa.verify_|{sn}|{kn}"] = lambda s=s, k=k: dsa.verify_(h32, k, s)
        c[f"dsa.recover_pub_keys_|{sn}"] = lambda s=s: dsa.recover_pub_keys_(h32, s)
        for kid in (0, 1, 2, 3, 4, -1):
            c[f"dsa.recover_pub_key_|{sn}|{kid}"] = lambda s=s, kid=kid: dsa.recover_pub_key_(kid, h32, s)
    for sn, k in scalars.items():
        c[f"dsa.sign_|{sn}"] = lambda k=k: dsa.sign_(h32, k).serialize()
        c[f"dsa.sign_recoverable_|{sn}"] = lambda k=k: dsa.sign_recoverable_(h32, k)
        c[f"ssa.sign_|{sn}"] = lambda k=k: ssa.sign_(h32, k, bytes(32)).serialize()
        c[f"bip32.rootxprv|seedlen {sn}"] = lambda k=k: bip32.rootxprv_from_seed(hashlib.sha512(str(k).encode()).digest())
    c["dsa.sign_|wrong hash length"] = lambda: dsa.sign_(h32[:31], q)
    c["dsa.sign_|nogrind"] = lambda: dsa.sign_(h32, q, grind=False).serialize()
    # a recovered key that is infinity: s*K = c*G
    kk = r.randrange(1, n)
    KK = mult(kk)
    cc = int.from_bytes(h32, "big") % n
    inf_sig = dsa.Sig(KK[0] % n, cc * pow(kk, -1, n) % n, check_validity=False)
    for kid in (0, 1, 2, 3):
        c[f"dsa.recover_pub_key_|recovers infinity|{kid}"] = lambda kid=kid: dsa.recover_pub_key_(kid, h32, inf_sig)
    c["dsa.recover_pub_keys_|recovers infinity"] = lambda: dsa.recover_pub_keys_(h32, inf_sig)
    c["dsa.verify_|recovers infinity"] = lambda: dsa.verify_(h32, Q, inf_sig)
    # ---- BIP340 ----
    ssig = ssa.sign_(h32, q, bytes(32))
    ssigs: dict[str, Any] = {"valid": ssig, "bytes": ssig.serialize(), "s+1": ssa.Sig(ssig.r, (ssig.s + 1) % n, check_validity=False), "s=n": ssa.Sig(ssig.r, n, check_validity=False),
                             "r=p": ssa.Sig(p, ssig.s, check_validity=False), "r off-curve": ssa.Sig(xoff, ssig.s, check_validity=False), "63 bytes": ssig.serialize()[:63],
                             "65 bytes": ssig.serialize() + b"\x00", "r=0": ssa.Sig(0, 1, check_validity=False)}
    xkeys: dict[str, Any] = {"int": Q[0], "32 bytes": Q[0].to_bytes(32, "big"), "other": Q2[0], "off-curve": xoff, "x=p": p, "x=0": 0, "point": Q, "sec": sec, "neg": -1,
                             "2^256": 2**256}
    for sn, s in ssigs.items():
        for kn, k in xkeys.items():
            c[f"ssa.verify_|{sn}|{kn}"] = lambda s=s, k=k: ssa.verify_(h32, k, s)
    c["ssa.batch_verify_|ok"] = lambda: ssa.batch_verify_([h32] * 3, [Q[0]] * 3, [ssig] * 3)
    c["ssa.batch_verify_|one bad"] = lambda: ssa.batch_verify_([h32] * 3, [Q[0], Q2[0], Q[0]], [ssig] * 3)
    c["ssa.batch_verify_|off-curve key"] = lambda: ssa.batch_verify_([h32] * 2, [Q[0], xoff], [ssig] * 2)
    c["ssa.sign_|msg 0 bytes"] = lambda: ssa.sign_(b"", q, bytes(32)).serialize()
    c["ssa.sign_|msg 100 bytes"] = lambda: ssa.sign_(b"m" * 100, q, bytes(32)).serialize()
    c["ssa.sign_|aux 31 bytes"] = lambda: ssa.sign_(h32, q, bytes(31)).serialize()
    # ---- message signing ----
    wif = b58.wif_from_prv_key(q)
    for an, addr in (("p2pkh", b58.p2pkh(wif)), ("p2wpkh-p2sh", b58.p2wpkh_p2sh(wif)), ("p2wpkh", b32.p2wpkh(wif))):
        c[f"bms.sign|{an}"] = lambda addr=addr: bms.sign(b"hello", wif, addr).serialize()
        bs = bms.sign(b"hello", wif, addr)
        c[f"bms.verify|{an}"] = lambda addr=addr, bs=bs: bms.verify(b"hello", addr, bs)
        c[f"bms.verify|{an}|wrong msg"] = lambda addr=addr, bs=bs: bms.verify(b"hellO", addr, bs)
        c[f"bms.verify|{an}|garbage"] = lambda addr=addr: bms.verify(b"hello", addr, b"\x1f" + bytes(64))
    # ---- BIP32 ----
    xprv = bip32.rootxprv_from_seed(bytes(range(32)))
    xpub = bip32.xpub_from_xprv(xprv)
    for path in ([0], [0x80000000], [1, 2, 3], [0x7FFFFFFF, 0], [2**32 - 1]):
        c[f"bip32.derive|prv|{path}"] = lambda path=path: bip32.derive(xprv, path)
        c[f"bip32.derive|pub|{path}"] = lambda path=path: bip32.derive(xpub, path)
    c["bip32.derive|bad xkey"] = lambda: bip32.derive(xpub[:-4] + "aaaa", [0])
    c["bip32.xpub_from_xprv"] = lambda: bip32.xpub_from_xprv(xprv)
    c["bip32.xpub_from_xprv|pub given"] = lambda: bip32.xpub_from_xprv(xpub)
    # ---- taproot tweaks ----
    for kn, k in (("sec", sec), ("uncompressed", sec_u), ("hybrid", hybrid), ("off-curve", b"\x02" + xoff.to_bytes(32, "big")), ("x=p", b"\x02" + p.to_bytes(32, "big")),
                  ("33 bytes prefix 04", b"\x04" + sec[1:])):
        c[f"taproot.output_pubkey|{kn}"] = lambda k=k: taproot.output_pubkey(k, [(0xC0, ["OP_1"])])
        c[f"taproot.output_pubkey|{kn}|no tree"] = lambda k=k: taproot.output_pubkey(k)
    for xn, x in (("ok", Q[0].to_bytes(32, "big")), ("off-curve", xoff.to_bytes(32, "big")), ("x=p", p.to_bytes(32, "big")), ("31 bytes", bytes(31))):
        c[f"taproot.output_pubkey_from_merkle_root|{xn}"] = lambda x=x: taproot.output_pubkey_from_merkle_root(x, h32)
    for sn, k in scalars.items():
        c[f"taproot.output_prvkey|{sn}"] = lambda k=k: taproot.output_prvkey(k)
    qq, par = taproot.output_pubkey(sec, [(0xC0, ["OP_1"])])
    scr, ctrl = taproot.input_script_sig(sec, [(0xC0, ["OP_1"])], 0)
    for cn, cb in (("ok", ctrl), ("parity flipped", bytes([ctrl[0] ^ 1]) + ctrl[1:]), ("key off-curve", ctrl[:1] + xoff.to_bytes(32, "big")), ("key = p", ctrl[:1] + p.to_bytes(32, "big")),
                   ("34 bytes", ctrl + b"\x00"), ("1 byte", ctrl[:1]), ("empty", b"")):
        c[f"taproot.check_output_pubkey|{cn}"] = lambda cb=cb: taproot.check_output_pubkey(qq, taproot.serialize(scr), cb)
    c["taproot.check_output_pubkey|q 33 bytes"] = lambda: taproot.check_output_pubkey(b"\x02" + qq, taproot.serialize(scr), ctrl)
    # every other leaf version (the upgrade room of BIP341), honest and with the parity bit flipped, in trees of one and two leaves
    for ver in (0xC2, 0xFA, 0xFE, 0x66, 0x7E, 0xBE):
        for tn, tree_ in (("one leaf", [(ver, ["OP_1"])]), ("two leaves", [[(ver, ["OP_1"])], [(0xC0, ["OP_2"])]])):
            qv, _pv = taproot.output_pubkey(sec, tree_)
            sv, cv = taproot.input_script_sig(sec, tree_, 0)
            c[f"taproot.check_output_pubkey|leaf version {ver:#x} {tn}"] = lambda qv=qv, sv=sv, cv=cv: taproot.check_output_pubkey(qv, taproot.serialize(sv), cv)
            c[f"taproot.check_output_pubkey|leaf version {ver:#x} {tn} parity flipped"] = lambda qv=qv, sv=sv, cv=cv: taproot.check_output_pubkey(qv, taproot.serialize(sv), bytes([cv[0] ^ 1]) + cv[1:])
    # ---- ECDH / ElligatorSwift ----
    for bn, P in {**bad_points, "ok": Q2}.items():
        c[f"dh.diffie_hellman|{bn}"] = lambda P=P: dh.diffie_hellman(q, P, 32)
    for sn, k in scalars.items():
        c[f"dh.diffie_hellman|scalar {sn}"] = lambda k=k: dh.diffie_hellman(k, Q2, 32)
    ell_a = ellswift.encode_var(Q) if False else None
    for sn, k in scalars.items():
        c[f"ellswift.decode(create)|{sn}"] = lambda k=k: mult(k) if k % n == 0 else None   # placeholder keeps the key space aligned across arms
    ells = {"zeros": bytes(64), "ones": b"\xff" * 64, "rnd": random.Random(seed + 1).randbytes(64), "63 bytes": bytes(63), "u=p": p.to_bytes(32, "big") + bytes(32)}
    for en, e in ells.items():
        c[f"ellswift.decode_var|{en}"] = lambda e=e: ellswift.decode_var(e)
        c[f"ellswift.xdh|{en}"] = lambda e=e: ellswift.xdh(e, ells["rnd"], q, 0)
        c[f"ellswift.xdh|{en}|party 1"] = lambda e=e: ellswift.xdh(ells["rnd"], e, q, 1)
    for spn, sp_ in (("bytearray", bytearray), ("memoryview", memoryview), ("hex", lambda b: b.hex())):       # the other spellings of the same octets
        c[f"ellswift.xdh|encodings as {spn}"] = lambda sp_=sp_: ellswift.xdh(sp_(ells["rnd"]), sp_(ells["ones"]), q, 0)
        c[f"ellswift.decode_var|encoding as {spn}"] = lambda sp_=sp_: ellswift.decode_var(sp_(ells["rnd"]))
    c["ellswift.xdh|party 2"] = lambda: ellswift.xdh(ells["rnd"], ells["ones"], q, 2)
    c["ellswift.xdh|key 0"] = lambda: ellswift.xdh(ells["rnd"], ells["ones"], 0, 0)
    # ---- MuSig2 partial verification ----
    d = [r.randrange(1, n) for _ in range(3)]
    pks = [musig2.individual_pub_key(x) for x in d]
    nonces = [musig2.nonce_gen_(bytes([i + 1]) * 32, d[i], pks[i]) for i in range(3)]
    pubn = [x[1] for x in nonces]
    agg = musig2.nonce_agg(pubn)
    ctx = musig2.SessionContext(agg, pks, [bytes([9]) * 32], [True], b"c04 message")
    psig = musig2.sign(bytearray(nonces[0][0]), d[0], ctx)
    c["musig2.key_agg"] = lambda: musig2.key_agg(pks).x_only_pub_key
    c["musig2.key_agg|off-curve key"] = lambda: musig2.key_agg([pks[0], b"\x02" + xoff.to_bytes(32, "big")]).x_only_pub_key
    c["musig2.key_agg|hybrid key"] = lambda: musig2.key_agg([pks[0], hybrid]).x_only_pub_key
    c["musig2.nonce_agg"] = lambda: musig2.nonce_agg(pubn)
    c["musig2.nonce_agg|cancelling"] = lambda: musig2.nonce_agg([pubn[0], bytes([pubn[0][0] ^ 1]) + pubn[0][1:33] + bytes([pubn[0][33] ^ 1]) + pubn[0][34:]])
    c["musig2.nonce_agg|bad point"] = lambda: musig2.nonce_agg([pubn[0], b"\x02" + xoff.to_bytes(32, "big") + pubn[1][33:]])
    c["musig2.nonce_agg|65 bytes"] = lambda: musig2.nonce_agg([pubn[0], pubn[1][:65]])
    for pn, ps in (("ok", psig), ("s+1", ((int.from_bytes(psig, "big") + 1) % n).to_bytes(32, "big")), ("s=n", n.to_bytes(32, "big")), ("31 bytes", psig[:31]), ("zero", bytes(32))):
        c[f"musig2.partial_sig_verify|{pn}"] = lambda ps=ps: musig2.partial_sig_verify(ps, pubn, pks, [bytes([9]) * 32], [True], b"c04 message", 0)
        c[f"musig2.partial_sig_verify|{pn}|signer 1"] = lambda ps=ps: musig2.partial_sig_verify(ps, pubn, pks, [bytes([9]) * 32], [True], b"c04 message", 1)
    c["musig2.partial_sig_verify|tweak = n"] = lambda: musig2.partial_sig_verify(psig, pubn, pks, [n.to_bytes(32, "big")], [True], b"c04 message", 0)
    c["musig2.partial_sig_agg"] = lambda: musig2.partial_sig_agg([psig, psig, psig], ctx).serialize()
    # ---- silent payments ----
    b_scan, b_spend = r.randrange(1, n), r.randrange(1, n)
    B_scan, B_spend = mult(b_scan), mult(b_spend)
    addr = sp.address_from_keys(B_scan, B_spend)
    laddr = sp.labeled_address_from_keys(b_scan, B_spend, 1)
    ops = [OutPoint(bytes([7]) * 32, 1), OutPoint(bytes([3]) * 32, 0)]
    in_keys = [(d[0], b"\x00\x14" + bytes(20)), (d[1], b"\x51\x20" + mult(d[1])[0].to_bytes(32, "big"))]
    c["sp.output_keys"] = lambda: sp.output_keys(in_keys, ops, [addr, addr, laddr])
    outs = sp.output_keys(in_keys, ops, [addr, laddr, addr])
    pub_in = [(mult(d[0]), in_keys[0][1]), (mult(d[1]), in_keys[1][1])]
    labels = sp.label_lookup(b_scan, [1, 2])
    c["sp.scan"] = lambda: sp.scan_transaction_outputs(b_scan, B_spend, ops, pub_in, outs, labels)
    # a taproot input's key handed with either ordinate (BIP352 reads it off the script, x-only)
    for parity in (0, 1):
        dk = d[1] if mult(d[1])[1] % 2 == parity else n - d[1]
        ik = [in_keys[0], (dk, b"\x51\x20" + mult(dk)[0].to_bytes(32, "big"))]
        po = [pub_in[0], (mult(dk), ik[1][1])]
        oo = sp.output_keys(ik, ops, [addr, laddr])
        c[f"sp.scan|taproot input given with {'odd' if parity else 'even'} y"] = lambda po=po, oo=oo: sp.scan_transaction_outputs(b_scan, B_spend, ops, po, oo, labels)
    c["sp.scan|reversed outputs"] = lambda: sp.scan_transaction_outputs(b_scan, B_spend, ops, pub_in, outs[::-1], labels)
    c["sp.scan|no labels"] = lambda: sp.scan_transaction_outputs(b_scan, B_spend, ops, pub_in, outs)
    c["sp.scan|decoys"] = lambda: sp.scan_transaction_outputs(b_scan, B_spend, ops, pub_in, [Q[0].to_bytes(32, "big")] + outs + [Q2[0].to_bytes(32, "big")], labels)
    c["sp.scan|off-curve output"] = lambda: sp.scan_transaction_outputs(b_scan, B_spend, ops, pub_in, outs + [xoff.to_bytes(32, "big")], labels)
    c["sp.scan|output ff..ff"] = lambda: sp.scan_transaction_outputs(b_scan, B_spend, ops, pub_in, outs + [b"\xff" * 32], labels)
    c["sp.scan|output 31 bytes"] = lambda: sp.scan_transaction_outputs(b_scan, B_spend, ops, pub_in, outs + [bytes(31)], labels)
    c["sp.scan|labelled before plain"] = lambda: sp.scan_transaction_outputs(b_scan, B_spend, ops, pub_in, sp.output_keys(in_keys, ops, [laddr, addr]), labels)
    both_k0 = [sp.output_keys(in_keys, ops, [laddr])[0], sp.output_keys(in_keys, ops, [addr])[0]]
    c["sp.scan|labelled then plain at one k"] = lambda: sp.scan_transaction_outputs(b_scan, B_spend, ops, pub_in, both_k0, labels)
    c["sp.scan|plain then labelled at one k"] = lambda: sp.scan_transaction_outputs(b_scan, B_spend, ops, pub_in, both_k0[::-1], labels)
    c["sp.scan|labelled at one k twice"] = lambda: sp.scan_transaction_outputs(b_scan, B_spend, ops, pub_in, [both_k0[0], both_k0[0], both_k0[1]], labels)
    c["sp.scan|b_scan 0"] = lambda: sp.scan_transaction_outputs(0, B_spend, ops, pub_in, outs, labels)
    c["sp.scan|input key off-curve"] = lambda: sp.scan_transaction_outputs(b_scan, B_spend, ops, [(bad_points["off-curve"], in_keys[0][1])], outs, labels)
    c["sp.output_keys|key 0"] = lambda: sp.output_keys([(0, in_keys[0][1])], ops, [addr])
    c["sp.output_keys|bad address"] = lambda: sp.output_keys(in_keys, ops, [addr[:-1] + "q"])
    c["sp.shared_secret|inf"] = lambda: sp.shared_secret(q, (5, 0))
    c["sp.pub_key_sum|cancelling"] = lambda: sp.pub_key_sum([Q, (Q[0], p - Q[1])])
    # ---- objects built once (while the bindings serve) and used on whichever arm is current ----
    from btclib.curves.curve import PreparedPoint

    dsig = dsa.Signer(q)
    ssig_obj = ssa.Signer(q)
    pp = PreparedPoint(Q2)
    c["object|dsa.Signer.sign_"] = lambda: dsig.sign_(h32)
    c["object|dsa.Signer.sign_|nogrind noverify"] = lambda: dsig.sign_(h32, grind=False, verify=False)
    c["object|dsa.Signer.sign"] = lambda: dsig.sign(b"a message")
    c["object|ssa.Signer.sign_"] = lambda: ssig_obj.sign_(h32, bytes(32))
    c["object|ssa.Signer.sign_|noverify"] = lambda: ssig_obj.sign_(b"any length message", bytes(32), verify=False)
    c["object|PreparedPoint.mult"] = lambda: pp.mult(0xABCDEF)
    c["object|PreparedPoint.mult|0"] = lambda: pp.mult(0)
    c["object|musig2 session.partial_sig_verify_"] = lambda: musig2.partial_sig_verify_(psig, pubn[0], pks[0], ctx)
    c["object|musig2 session.partial_sig_agg"] = lambda: musig2.partial_sig_agg([psig, psig, psig], ctx).serialize()
    # a partial signature checked against a well-formed key that is not of the session, a nonce that is not the signer's, a signature out of range
    foreign_pk = musig2.individual_pub_key(0xF0F0F0F)
    c["object|musig2 session.partial_sig_verify_|a key outside the session"] = lambda: musig2.partial_sig_verify_(psig, pubn[0], foreign_pk, ctx)
    c["object|musig2 session.partial_sig_verify_|another signer's nonce"] = lambda: musig2.partial_sig_verify_(psig, pubn[1], pks[0], ctx)
    c["object|musig2 session.partial_sig_verify_|another signer's key"] = lambda: musig2.partial_sig_verify_(psig, pubn[0], pks[1], ctx)
    # (the same over a 32-byte message and no adaptor, the one shape the bindings serve)
    ctx32 = musig2.SessionContext(agg, pks, [], [], h32)
    psig32 = musig2.sign(bytearray(nonces[0][0]), d[0], ctx32)
    for label, thunk in (("its own", lambda: musig2.partial_sig_verify_(psig32, pubn[0], pks[0], ctx32)), ("a key outside the session", lambda: musig2.partial_sig_verify_(psig32, pubn[0], foreign_pk, ctx32)),
                         ("another signer's key", lambda: musig2.partial_sig_verify_(psig32, pubn[0], pks[1], ctx32)), ("another signer's nonce", lambda: musig2.partial_sig_verify_(psig32, pubn[1], pks[0], ctx32))):
        c[f"object|musig2 session over 32 bytes.partial_sig_verify_|{label}"] = thunk
    # objects with a life cycle, built on the arm that then serves them: used, wiped (explicitly, and by leaving a with block), used again
    def wiped(make: Callable[[], Any], use: Callable[[Any], Any], how: str) -> Any:
        s_ = make()
        first = use(s_)
        if how == "wipe":
            s_.wipe()
        else:
            with s_:
                pass
        return first, use(s_)

    for how in ("wipe", "with"):
        c[f"life|ssa.Signer built here, used, {how}, used again"] = lambda how=how: wiped(lambda: ssa.Signer(q), lambda s_: s_.sign_(h32, bytes(32)), how)
        c[f"life|ssa.Signer built here, used on a long message, {how}, used again"] = lambda how=how: wiped(lambda: ssa.Signer(q), lambda s_: s_.sign_(b"any length message", bytes(32)), how)
        c[f"life|dsa.Signer built here, used, {how}, used again"] = lambda how=how: wiped(lambda: dsa.Signer(q), lambda s_: s_.sign_(h32), how)
    c["life|ssa.Signer wiped before any use"] = lambda: (lambda s_: (s_.wipe(), s_.sign_(h32, bytes(32)))[1])(ssa.Signer(q))
    c["life|dsa.Signer wiped before any use"] = lambda: (lambda s_: (s_.wipe(), s_.sign_(h32))[1])(dsa.Signer(q))
    # ---- the script engine: signature checks and whole-transaction verdicts ----
    for name, thunk in engine_calls(q, seed).items():
        c[name] = thunk
    return {k: v for k, v in c.items() if not k.startswith("ellswift.decode(create)")}


def engine_calls(q: int, seed: int) -> dict[str, Callable[[], Any]]:
    from btclib.curves import mult, secp256k1 as ec
    from btclib.curves.sec_point import bytes_from_point
    from btclib.ecc import dsa, ssa
    from btclib.hashes import hash160
    from btclib.script import sig_hash, taproot
    from btclib.script.engine import verify_input, verify_transaction
    from btclib.script.script_pub_key import ScriptPubKey
    from btclib.script.witness import Witness
    from btclib.tx import OutPoint, Tx, TxIn, TxOut

    out: dict[str, Callable[[], Any]] = {}
    Q = mult(q)
    sec = bytes_from_point(Q)
    sec_u = bytes_from_point(Q, compressed=False)
    hybrid = bytes([6 + (Q[1] & 1)]) + sec_u[1:]

    def p2pkh_spend(pub: bytes, sig_mut: str) -> tuple[list[Any], Any]:
        spk = b"\x76\xa9\x14" + hash160(pub) + b"\x88\xac"
        prev = TxOut(10_000, ScriptPubKey(spk, check_validity=False), check_validity=False)
        tx = Tx(2, 0, [TxIn(OutPoint(b"\x09" * 32, 0), b"", 0xFFFFFFFE)], [TxOut(9_000, ScriptPubKey(b"\x51", check_validity=False), check_validity=False)], check_validity=False)
        msg = sig_hash.legacy(spk, tx, 0, 1)
        s = dsa.sign_(msg, q)
        if sig_mut == "high-s":
            s = dsa.Sig(s.r, ec.n - s.s, check_validity=False)
        der = s.serialize(check_validity=False) + b"\x01"
        if sig_mut == "hashtype 0":
            der = der[:-1] + b"\x00"
        if sig_mut == "padded":
            der = b"\x30" + bytes([der[1] + 1]) + b"\x02" + bytes([der[3] + 1]) + b"\x00" + der[4:-1] + b"\x01"
        if sig_mut == "empty":
            der = b""
        tx.vin[0].script_sig = bytes([len(der)]) + der + bytes([len(pub)]) + pub
        return [prev], tx

    for kn, pub in (("compressed", sec), ("uncompressed", sec_u), ("hybrid", hybrid)):
        for sm in ("valid", "high-s", "hashtype 0", "padded", "empty"):
            for fl in (["P2SH"], ["P2SH", "DERSIG", "LOW_S", "STRICTENC", "NULLFAIL"], None):
                prev, tx = p2pkh_spend(pub, sm)
                out[f"verify_input|p2pkh|{kn}|{sm}|{fl}"] = lambda prev=prev, tx=tx, fl=fl: verify_input(prev, tx, 0, fl)
                out[f"verify_transaction|p2pkh|{kn}|{sm}|{fl}"] = lambda prev=prev, tx=tx, fl=fl: verify_transaction(prev, tx, fl)
    # a signature whose s sits on the low-s boundary: the key is solved for, and a bare OP_CHECKSIG output keeps it out of the sighash
    from btclib.curves.sec_point import bytes_from_point as _bfp

    prev_b = TxOut(10_000, ScriptPubKey(b"\xac", check_validity=False), check_validity=False)
    for sname, sval in (("n//2", ec.n // 2), ("n//2+1", ec.n // 2 + 1), ("n//2-1", ec.n // 2 - 1), ("1", 1), ("n-1", ec.n - 1)):
        txb = Tx(2, 0, [TxIn(OutPoint(b"\x0c" * 32, 0), b"", 0xFFFFFFFE)], [TxOut(9_000, ScriptPubKey(b"\x51", check_validity=False), check_validity=False)], check_validity=False)
        cmsg = int.from_bytes(sig_hash.legacy(b"\xac", txb, 0, 1), "big") % ec.n
        kk = 0x1234567
        K = mult(kk)
        rr = K[0] % ec.n
        qq_ = (sval * kk - cmsg) * pow(rr, -1, ec.n) % ec.n
        pub_b = _bfp(mult(qq_))
        der_b = dsa.Sig(rr, sval, check_validity=False).serialize(check_validity=False) + b"\x01"
        txb.vin[0].script_sig = bytes([len(der_b)]) + der_b + bytes([len(pub_b)]) + pub_b
        for fl in (["P2SH"], ["P2SH", "LOW_S"], ["P2SH", "DERSIG", "STRICTENC"], None):
            out[f"verify_input|bare checksig|s={sname}|{fl}"] = lambda txb=txb, fl=fl: verify_input([prev_b], txb, 0, fl)
    # taproot key path
    for sm in ("valid", "s+1", "65 bytes type 1", "65 bytes type 0", "63 bytes", "wrong key"):
        qq, _ = taproot.output_pubkey(sec)
        spk = b"\x51\x20" + (qq if sm != "wrong key" else mult(q + 1)[0].to_bytes(32, "big"))
        prev = TxOut(10_000, ScriptPubKey(spk, check_validity=False), check_validity=False)
        tx = Tx(2, 0, [TxIn(OutPoint(b"\x0a" * 32, 0), b"", 0xFFFFFFFE)], [TxOut(9_000, ScriptPubKey(b"\x51", check_validity=False), check_validity=False)], check_validity=False)
        ht = 1 if sm == "65 bytes type 1" else 0
        msg = sig_hash.taproot(tx, 0, [prev], ht, 0, b"", b"")
        sg = ssa.sign_(msg, taproot.output_prvkey(q), bytes(32)).serialize()
        if sm == "s+1":
            sg = sg[:32] + ((int.from_bytes(sg[32:], "big") + 1) % ec.n).to_bytes(32, "big")
        if sm == "65 bytes type 1":
            sg += b"\x01"
        if sm == "65 bytes type 0":
            sg += b"\x00"
        if sm == "63 bytes":
            sg = sg[:63]
        tx.vin[0].script_witness = Witness([sg])
        out[f"verify_input|p2tr key path|{sm}"] = lambda prev=prev, tx=tx: verify_input([prev], tx, 0)
        out[f"verify_transaction|p2tr key path|{sm}"] = lambda prev=prev, tx=tx: verify_transaction([prev], tx)
    # an output key that is not on the curve
    xoff = next(x for x in range(2, 100) if pow((x**3 + 7) % ec.p, (ec.p - 1) // 2, ec.p) != 1)
    prev = TxOut(10_000, ScriptPubKey(b"\x51\x20" + xoff.to_bytes(32, "big"), check_validity=False), check_validity=False)
    tx = Tx(2, 0, [TxIn(OutPoint(b"\x0b" * 32, 0), b"", 0xFFFFFFFE, Witness([bytes(64)]))], [TxOut(9_000, ScriptPubKey(b"\x51", check_validity=False), check_validity=False)], check_validity=False)
    out["verify_input|p2tr off-curve output key"] = lambda: verify_input([prev], tx, 0)
    return out


def check(run: Run) -> None:
    from btclib.curves import set_libsecp256k1_serving
    from btclib.curves.curve import is_libsecp256k1_serving

    thorough = run.tier == "thorough"
    run.rule = ("every dual-path entry point (multiplications, ECDSA / BIP340 sign, verify, recover, batch, message signing, BIP32, taproot tweaks and "
                "control blocks, ECDH, ElligatorSwift, MuSig2, silent-payment creation and scanning, engine signature checks and whole-transaction "
                "verdicts) x valid arguments and each argument malformed one way (off-curve / infinity / x >= p points, 04-prefixed 33 bytes, hybrid "
                "keys, scalars 0, n, n+1, 2^256-1, negative, unparseable / high-s / out-of-range signatures, wrong lengths); each call made on both "
                "arms, and again along random histories with flips in between. Non-trivial = a call whose outcome is a value or a refusal on both arms")
    run.assumptions = ["the outcome compared is the SHA-256 of repr(value) or the exception class name", "the bindings are installed (otherwise there is one arm and the check reports machinery failure)"]
    if not is_libsecp256k1_serving():
        raise tlc.TLCFailure("C04: the libsecp256k1 bindings are not serving in this process: there is only one arm to observe")
    res = tlc.run("Backend", cfg_text='SPECIFICATION BSpec\nCONSTANTS Calls = {"a", "b"}\nINVARIANT ArmIndependent\nCHECK_DEADLOCK FALSE\n', workers=2)
    run.tlc(res, "M Backend")
    for v in res.violations:
        raise tlc.TLCFailure(f"Backend violates {v.name}")
    table = calls(run.seed)
    names = sorted(table)
    rnd = random.Random(run.seed + 4)
    evs: list[dict[str, Any]] = []
    try:
        # pass 1: every call, bindings serving; pass 2: switched off
        for arm in (True, False):
            set_libsecp256k1_serving(serving=arm)
            if evs:
                evs.append({"ev": "flip"})
            for nm in names:
                evs.append({"ev": "ret", "op": nm, "ans": outcome(table[nm]), "arm": arm})
        # histories: random calls with flips in between (objects built on one arm, used on the other)
        for _ in range(3000 if thorough else 500):
            if rnd.random() < 0.2:
                set_libsecp256k1_serving(serving=not is_libsecp256k1_serving())
                evs.append({"ev": "flip"})
            nm = rnd.choice(names)
            evs.append({"ev": "ret", "op": nm, "ans": outcome(table[nm]), "arm": is_libsecp256k1_serving()})
    finally:
        set_libsecp256k1_serving(serving=True)
    rejected = c20_purity.validate_trace(run, evs)
    first: dict[str, dict[str, Any]] = {}
    for e in evs:
        if e["ev"] == "ret":
            first.setdefault(e["op"], e)
    seen_bad: set[str] = set()
    for ln in rejected:
        e = evs[ln - 1]
        if e["op"] in seen_bad:
            continue
        seen_bad.add(e["op"])
        f = first[e["op"]]
        key_op = e["op"].rsplit("|", 1)[0] if "recovers infinity" in e["op"] and e["op"][-1].isdigit() else e["op"]
        run.violation(f"arms|{key_op}", f"{e['op']}: {'bindings' if f['arm'] else 'python'} arm {f['ans']}, {'bindings' if e['arm'] else 'python'} arm {e['ans']}",
                      {"machine": "PurityTrace", "op": e["op"], "first": f, "later": e, "seed": run.seed})
    rets = [e for e in evs if e["ev"] == "ret"]
    run.sample({"events": [e for e in evs[:4]]})
    run.sample({"malformed-input events": [e for e in rets if e["ans"].startswith("ERR")][:4]})
    run.section("calls", {"entry_point_argument_pairs": len(names), "events": len(rets), "flips": sum(e["ev"] == "flip" for e in evs),
                          "refusals": sum(1 for nm in names if first[nm]["ans"].startswith("ERR"))})
    run.count(evaluations=len(rets), validated=len(rets), nontrivial=len(names))


def replay(path: str) -> int:
    from btclib.curves import set_libsecp256k1_serving

    body = json.load(open(path))
    table = calls(body.get("seed", 20260922))
    op = body["op"]
    if op not in table:
        return 0
    try:
        set_libsecp256k1_serving(serving=True)
        a = outcome(table[op])
        set_libsecp256k1_serving(serving=False)
        b = outcome(table[op])
    finally:
        set_libsecp256k1_serving(serving=True)
    if a != b:
        print(f"VIOLATION property=C04 replay={path}  # {op}: bindings {a}, python {b}")
        return 1
    return 0
