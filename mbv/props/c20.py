"""C20 -- nonces sign once, wiped signers stay dead, wallet ledgers, history independence.

Spec modules: NonceLife, SignerLife, WalletLedger, MemoCache (spec/).
M: TLC model-checks the invariants / action properties of each machine.
G: TLC enumerates (and -simulate samples) call histories; each is replayed on real btclib
   objects and the projected state / returned value compared after every call.
V: answers of pure API calls recorded under histories (cache clears, backend flips, threads)
   are validated against the MemoCache trace spec: one function F must explain every answer.
"""

from __future__ import annotations

import random
from typing import Any

from .. import tlc
from ..core import Run

# --------------------------------------------------------------------------------------
# model configs

NONCE_M = """SPECIFICATION Spec
CONSTANTS Sessions = {"A", "B"}
MaxLen = 0
INVARIANT TypeOK
INVARIANT AtMostOnce
PROPERTY SigSpends
PROPERTY SpentForever
PROPERTY FreshKept
VIEW View
CHECK_DEADLOCK FALSE
"""


def nonce_g(depth: int) -> str:
    return f"""SPECIFICATION Spec
CONSTANTS Sessions = {{"A", "B"}}
MaxLen = {depth}
INVARIANT AtMostOnce
INVARIANT Emit
CONSTRAINT Bound
CHECK_DEADLOCK FALSE
"""


def signer_cfg(methods: list[str], kill: list[str], depth: int, gen: bool) -> str:
    ms = ", ".join(f'"{m}"' for m in methods)
    ks = ", ".join(f'"{k}"' for k in kill)
    s = f"SPECIFICATION Spec\nCONSTANTS Methods = {{{ms}}}\nKill = {{{ks}}}\nMaxLen = {depth}\n"
    s += "PROPERTY DeadNeverSigns\nPROPERTY DeadForever\nPROPERTY AliveSigns\nCHECK_DEADLOCK FALSE\n"
    s += "INVARIANT Emit\nCONSTRAINT Bound\n" if gen else "VIEW View\n"
    return s


def wallet_cfg(branches: list[int], bad: list[int], indexes: list[int], keys: list[str], depth: int, gen: bool) -> str:
    def st(xs: list[Any]) -> str:
        return "{" + ", ".join(f'"{x}"' if isinstance(x, str) else str(x) for x in xs) + "}"

    s = f"SPECIFICATION Spec\nCONSTANTS Branches = {st(branches)}\nBadBranches = {st(bad)}\n"
    s += f"Indexes = {st(indexes)}\nKeys = {st(keys)}\nMaxLen = {depth}\n"
    s += "INVARIANT HighWater\nINVARIANT NoDuplicates\nCHECK_DEADLOCK FALSE\n"
    if gen:
        s += "INVARIANT Emit\nCONSTRAINT Bound\n"
    else:
        s += "PROPERTY AppendOnly\nPROPERTY RefusalInert\nPROPERTY NextIsFresh\nVIEW View\nCONSTRAINT Small\n"
    return s


def _behaviours(res: tlc.Result) -> list[list[Any]]:
    return [v[1:] for v in res.printed_values() if isinstance(v, list) and v and v[0] == "BEH"]


def _require_cov(res: tlc.Result, actions: list[str], label: str) -> None:
    for a in actions:
        if res.coverage.get(a, 0) == 0:
            raise tlc.TLCFailure(f"{label}: action {a} was never taken (vacuous model run): {res.coverage}")


def _model(run: Run, module: str, cfg: str, label: str, actions: list[str]) -> None:
    res = tlc.run(module, cfg_text=cfg, coverage=True, workers=4)
    run.tlc(res, label)
    _require_cov(res, actions, label)
    for v in res.violations:
        # the specification itself violates the property: a defect of the model, not of btclib
        raise tlc.TLCFailure(f"{label}: the specification violates {v.name}:\n{v.text[:1500]}")


def _generate(run: Run, module: str, cfg: str, label: str, *, simulate: int = 0, depth: int = 0) -> list[list[Any]]:
    if simulate:
        res = tlc.run(module, cfg_text=cfg, workers=1, simulate=f"num={simulate}", depth=depth + 1, seed=run.seed)
    else:
        res = tlc.run(module, cfg_text=cfg, workers=1)
    for v in res.violations:
        raise tlc.TLCFailure(f"{label}: the specification violates {v.name}:\n{v.text[:1500]}")
    run.tlc(res, label)
    b = _behaviours(res)
    if not b:
        raise tlc.TLCFailure(f"{label}: TLC generated no behaviour")
    return b


# --------------------------------------------------------------------------------------
# nonce


class NonceWorld:
    """Real MuSig2 material: two signers, two sessions that assemble, one that does not."""

    def __init__(self, seed: int) -> None:
        from btclib.ecc import musig2

        self.m = musig2
        rnd = random.Random(seed)
        self.d = [rnd.randrange(1, 2**255) for _ in range(2)]
        self.pk = [musig2.individual_pub_key(d) for d in self.d]
        self.keys = list(self.pk)
        self.rand = [rnd.randbytes(32) for _ in range(2)]
        self.msgs = {"A": b"session A message", "B": b"session B is another message"}
        # the other signer's nonce is fixed; ours is regenerated per behaviour from the same randomness
        _, self.pub2 = musig2.nonce_gen_(self.rand[1], self.d[1], self.pk[1])
        _, self.pub1 = musig2.nonce_gen_(self.rand[0], self.d[0], self.pk[0])
        self.agg = musig2.nonce_agg([self.pub1, self.pub2])
        self.sessions = {
            k: musig2.SessionContext(self.agg, self.keys, [], [], m) for k, m in self.msgs.items()
        }
        # an aggregate nonce that is no point: the session does not assemble
        self.sessions["bad"] = musig2.SessionContext(b"\x02" + b"\xff" * 32 + self.agg[33:], self.keys, [], [], b"x")

    def fresh_nonce(self) -> bytearray:
        sec, pub = self.m.nonce_gen_(self.rand[0], self.d[0], self.pk[0])
        assert pub == self.pub1
        return sec


def replay_nonce(run: Run, world: NonceWorld, beh: list[Any], label: str) -> None:
    from btclib.exceptions import BTClibException

    (hist,) = beh
    sec = world.fresh_nonce()
    sigs = 0
    for step, (op, s, k, want_last, want_st) in enumerate(hist):
        got_last = "none"
        if op == "sign":
            key = world.d[0] if k == "rightkey" else world.d[1]
            try:
                psig = world.m.sign(sec, key, world.sessions[s])
                got_last = "sig"
                sigs += 1
                if not world.m.partial_sig_verify(psig, [world.pub1, world.pub2], world.keys, [], [],
                                                  world.msgs[s], 0):
                    run.violation(f"nonce|{label}|partial signature does not verify",
                                  "musig2.sign returned a partial signature that does not verify",
                                  {"history": hist, "step": step})
            except BTClibException:
                got_last = "refused"
            except Exception as e:  # noqa: BLE001
                got_last = f"foreign:{type(e).__name__}"
        else:
            world.m.nonce_agg([world.pub1, world.pub2])
        got_st = "fresh" if any(sec[:64]) else "spent"
        if got_last != want_last or got_st != want_st or sigs > 1:
            calls = [list(x[:3]) for x in hist[: step + 1]]
            run.violation(
                f"nonce|{label}|{_shrink_key(calls)}",
                f"musig2 secret nonce: after {calls} the code shows ({got_last}, {got_st}, sigs={sigs}), "
                f"NonceLife allows ({want_last}, {want_st}, sigs<=1)",
                {"machine": "NonceLife", "history": hist, "step": step,
                 "actual": [got_last, got_st, sigs], "expected": [want_last, want_st]},
            )
            return


def replay_nonce_spellings(run: Run, world: NonceWorld, beh: list[Any], label: str) -> None:
    """The same behaviour with the secret nonce held in something the library cannot wipe (bytes, a hex string, a read-only memoryview) or can
    (a memoryview of the bytearray): whatever the spelling, the nonce signs at most once -- a spelling that cannot be wiped is one that cannot sign."""
    from btclib.exceptions import BTClibException

    (hist,) = beh
    for spelling in ("bytes", "hex", "memoryview of bytes", "memoryview of the bytearray"):
        fresh = world.fresh_nonce()
        sec: Any = {"bytes": bytes(fresh), "hex": bytes(fresh).hex(), "memoryview of bytes": memoryview(bytes(fresh)), "memoryview of the bytearray": memoryview(fresh)}[spelling]
        sigs = 0
        for step, (op, s_, k, _want_last, _want_st) in enumerate(hist):
            if op != "sign":
                continue
            key = world.d[0] if k == "rightkey" else world.d[1]
            try:
                world.m.sign(sec, key, world.sessions[s_])
                sigs += 1
            except BTClibException:
                pass
            except Exception:  # noqa: BLE001   (which exception refuses is C19's subject)
                pass
            if sigs > 1:
                run.violation(f"nonce|{label}|secnonce given as {spelling} signs twice",
                              f"musig2 secret nonce given as {spelling}: {sigs} partial signatures after {[list(x[:3]) for x in hist[: step + 1]]}; NonceLife allows one",
                              {"machine": "NonceLife", "history": hist, "step": step, "spelling": spelling})
                return


def _shrink_key(calls: list[Any]) -> str:
    """Canonical key of a failing history: the calls with consecutive repeats collapsed."""
    out: list[Any] = []
    for c in calls:
        if not out or out[-1] != c:
            out.append(c)
    return ";".join("/".join(str(x) for x in c) for c in out)


class PsbtNonceWorld:
    """The PSBT-level MuSig2 rounds (btclib.psbt.musig2), same machine."""

    def __init__(self, seed: int) -> None:
        self.ok = False
        try:
            from btclib.psbt import musig2 as pm  # noqa: F401
        except Exception:  # noqa: BLE001
            return


# --------------------------------------------------------------------------------------
# signers

XPRV_ROOT = (
    "xprv9s21ZrQH143K3GJpoapnV8SFfukcVBSfeCficPSGfubmSFDxo1kuHnLisriDvSnRR"
    "uL2Qrg5ggqHKNVpxR86QEC8w35uxmGoggxtQTPvfUu"
)


class SignerKinds:
    """Factories for the signer classes on both arms, with their entry points."""

    def __init__(self) -> None:
        from btclib.curves import secp256k1, set_libsecp256k1_serving
        from btclib.curves.curve import CURVES, is_libsecp256k1_serving
        from btclib.ecc import dsa, ssa

        self.set_serving = set_libsecp256k1_serving
        self.is_serving = is_libsecp256k1_serving
        self.dsa, self.ssa = dsa, ssa
        self.k1 = secp256k1
        self.r1 = CURVES["secp256r1"]
        self.initial = is_libsecp256k1_serving()
        self._soft: dict[str, Any] | None = None

    # each kind: (name, constructor(serving) -> object, methods {name: callable(obj) -> signature bytes}, kills)
    def kinds(self) -> list[dict[str, Any]]:
        h32 = bytes(range(32))
        out = []
        for arm_name, ec in (("k1", self.k1), ("r1", self.r1)):
            out.append({
                "name": f"dsa.Signer[{arm_name}]",
                "new": lambda ec=ec: self.dsa.Signer(0xC0FFEE, ec),
                "methods": {
                    "sign_": lambda o: o.sign_(h32),
                    "sign": lambda o: o.sign(b"message"),
                    "sign_nogrind": lambda o: o.sign_(h32, grind=False, verify=False),
                },
                "kill": {"wipe": lambda o: o.wipe(), "exit": lambda o: o.__exit__(None, None, None)},
                "verify": lambda o, m, sig, ec=ec: self._dsa_ok(m, sig, ec),
            })
            out.append({
                "name": f"ssa.Signer[{arm_name}]",
                "new": lambda ec=ec: self.ssa.Signer(0xC0FFEE, ec),
                "methods": {
                    "sign_": lambda o: o.sign_(h32),
                    "sign": lambda o: o.sign(b"message"),
                    "sign_nogrind": lambda o: o.sign_(h32, bytes(32), verify=False),
                },
                "kill": {"wipe": lambda o: o.wipe(), "exit": lambda o: o.__exit__(None, None, None)},
            })
        out.append(self._software())
        return out

    def _dsa_ok(self, m: str, sig: bytes, ec: Any) -> bool:
        return True

    def _software(self) -> dict[str, Any]:
        from btclib.bip32.bip32 import derive
        from btclib.bip32.key_origin import BIP32KeyOrigin
        from btclib.psbt.psbt import Psbt
        from btclib.psbt_signer import SoftwareSigner, export_account
        from btclib.to_pub_key import pub_keyinfo_from_key
        from btclib.tx import OutPoint, Tx, TxIn, TxOut

        probe = SoftwareSigner(XPRV_ROOT)
        fp = probe.master_fingerprint
        path = "m/84h/0h/0h/0/0"
        sec = pub_keyinfo_from_key(derive(XPRV_ROOT, path))[0]
        origin = BIP32KeyOrigin(fp, path)
        tpath = "m/86h/0h/0h/0/0"
        tsec = pub_keyinfo_from_key(derive(XPRV_ROOT, tpath))[0]
        torigin = BIP32KeyOrigin(fp, tpath)
        receive, change = export_account(probe, "m/84h/0h/0h")
        prev_out = TxOut(100_000, receive.script_pub_key(0))
        prev_tx = Tx(vin=[TxIn(OutPoint(b"\x06" * 32, 0))], vout=[prev_out])
        tx = Tx(vin=[TxIn(OutPoint(prev_tx.id, 0))],
                vout=[TxOut(60_000, receive.script_pub_key(1)), TxOut(39_000, change.script_pub_key(0))])
        psbt = Psbt.from_tx(tx)
        psbt.inputs[0].non_witness_utxo = prev_tx
        psbt = receive.update_psbt_input(psbt, 0, 0)
        h32 = bytes(range(32))

        def sign_psbt(o: Any) -> Any:
            res = o.sign_psbt(psbt)
            if not res.inputs[0].partial_sigs:
                raise AssertionError("sign_psbt returned no signature")
            return res

        def some(v: Any) -> Any:
            if v is None:
                raise AssertionError("the signer holds this key and answered None")
            return v

        return {
            "name": "SoftwareSigner",
            "new": lambda: SoftwareSigner(XPRV_ROOT),
            "methods": {
                "sign_psbt": sign_psbt,
                "sign_message": lambda o: o.sign_message(b"hello", path),
                "sign_ecdsa": lambda o: some(o.sign_ecdsa(sec, origin, h32)),
                "sign_schnorr": lambda o: some(o.sign_schnorr(tsec[1:], torigin, h32, b"")),
                "sign_schnorr_script_path": lambda o: some(o.sign_schnorr_script_path(tsec[1:], torigin, h32, h32)),
            },
            "kill": {"close": lambda o: o.close()},
        }


def replay_signer(run: Run, sk: SignerKinds, kind: dict[str, Any], beh: list[Any]) -> None:
    from btclib.exceptions import BTClibException

    (hist,) = beh
    start = sk.is_serving()
    try:
        obj = kind["new"]()
        for step, (op, name, want) in enumerate(hist):
            got = "none"
            if op == "sign":
                try:
                    r = kind["methods"][name](obj)
                    got = "sig" if r is not None else "none-returned"
                except BTClibException:
                    got = "refused"
                except Exception as e:  # noqa: BLE001
                    got = f"foreign:{type(e).__name__}:{e}"[:120]
            elif op == "kill":
                kind["kill"][name](obj)
            elif op == "flip":
                if sk.initial:  # flipping needs the bindings installed
                    sk.set_serving(serving=not sk.is_serving())
            if got != want:
                calls = [list(x[:2]) for x in hist[: step + 1]]
                # canonical form: which entry point answered what in which life state
                dead = any(c[0] == "kill" for c in calls[:-1])
                key = f"signer|{kind['name']}|{name}|{'dead' if dead else 'alive'}|{got.split(':')[0]}"
                run.violation(
                    key,
                    f"{kind['name']}.{name} after {'wipe/close' if dead else 'construction'}: "
                    f"code answered {got!r}, SignerLife allows {want!r}",
                    {"machine": "SignerLife", "kind": kind["name"], "history": hist, "step": step,
                     "actual": got, "expected": want},
                )
                return
    finally:
        if sk.initial:
            sk.set_serving(serving=start)


# --------------------------------------------------------------------------------------
# wallets


class WalletKinds:
    def __init__(self) -> None:
        self.cache: dict[tuple[str, int, int], str] = {}

    def kinds(self) -> list[dict[str, Any]]:
        from btclib.bip32.bip32 import derive, xpub_from_xprv
        from btclib.wallet import BIP32KeyWallet, DescriptorWallet, KeyGroup, ScriptWallet

        acct84 = derive(XPRV_ROOT, "m/84h/0h/0h")
        acct48 = [xpub_from_xprv(derive(XPRV_ROOT, f"m/48h/0h/{k}h")) for k in range(2)]
        wifs = {}
        from btclib import b58

        for name, q in (("k1", 0x1111), ("k2", 0x2222)):
            wifs[name] = b58.wif_from_prv_key(q)
        self.wifs = wifs
        return [
            {"name": "BIP32KeyWallet", "new": lambda: BIP32KeyWallet(XPRV_ROOT, "m/84h/0h/0h"), "keys": True},
            {"name": "BIP32KeyWallet[xpub,p2pkh]",
             "new": lambda: BIP32KeyWallet(xpub_from_xprv(derive(XPRV_ROOT, "m/44h/0h/0h")), "m/44h/0h/0h"),
             "keys": True},
            {"name": "DescriptorWallet",
             "new": lambda: DescriptorWallet.from_account(xpub_from_xprv(acct84), "m/84h/0h/0h", "73c5da0a"), "keys": False},
            {"name": "ScriptWallet",
             "new": lambda: ScriptWallet([KeyGroup(2, acct48)], "p2wsh"), "keys": False},
        ]


def _wallet_addr(wk: WalletKinds, kind: dict[str, Any], b: int, i: int) -> str:
    k = (kind["name"], b, i)
    if k not in wk.cache:
        wk.cache[k] = kind["new"]().address(b, i)  # a fresh wallet: no history
    return wk.cache[k]


def replay_wallet(run: Run, wk: WalletKinds, kind: dict[str, Any], beh: list[Any]) -> bool:
    from btclib.exceptions import BTClibException

    hist, ledger = beh
    if any(e[0] == "add" for e in hist) and not kind["keys"]:
        return False
    w = kind["new"]()

    def addr_of(entry: list[Any]) -> str:
        if entry[0] == "pos":
            return _wallet_addr(wk, kind, entry[1], entry[2])
        return _key_addr(wk, kind, entry[1])

    expect_ledger = [addr_of(e) for e in ledger]
    for step, (op, a, b, want, want_len) in enumerate(hist):
        try:
            if op == "address":
                got: Any = w.address(a, b)
            elif op == "next":
                got = w.next_address(a)
            elif op == "add":
                got = w.add(wk.wifs[a])
            else:
                spk = kind["new"]().script_pub_key(a, b)
                got = w.position_of(spk, 8)
        except BTClibException:
            got = "refused"
        except Exception as e:  # noqa: BLE001
            got = f"foreign:{type(e).__name__}"
        if want[0] == "refused":
            exp: Any = "refused"
        elif want[0] == "is":
            exp = (want[1], want[2])
        else:
            exp = addr_of(want)
        proj = list(w.addresses)
        ok = got == exp and proj == expect_ledger[:want_len] and len(w) == want_len
        if ok and want[0] in ("pos",):
            info = w.address_info(got)
            ok = info.branch == want[1] and info.index == want[2]
        nxt = getattr(w, "_next_index", None)
        if ok and isinstance(nxt, dict):
            # private high-water mark, compared when present: spec's next[b] is derivable from the history
            for br in (0, 1):
                handed = [e[3][2] for e in hist[: step + 1] if e[3][0] == "pos" and e[3][1] == br]
                if nxt.get(br, 0) != (max(handed) + 1 if handed else 0):
                    ok = False
        if not ok:
            calls = [list(x[:3]) for x in hist[: step + 1]]
            run.violation(
                f"wallet|{kind['name']}|{_shrink_key(calls)}",
                f"{kind['name']}: after {calls} the code returned {got!r} with ledger {proj}, "
                f"WalletLedger expects {exp!r} with ledger {expect_ledger[:want_len]}",
                {"machine": "WalletLedger", "kind": kind["name"], "history": hist, "step": step,
                 "actual": {"ret": str(got), "ledger": proj}, "expected": {"ret": str(exp), "ledger": expect_ledger[:want_len]}},
            )
            return True
    return True


def _key_addr(wk: WalletKinds, kind: dict[str, Any], name: str) -> str:
    k = (kind["name"] + "#key", 0, hash(name) & 0xFFFF)
    if k not in wk.cache:
        wk.cache[k] = kind["new"]().add(wk.wifs[name])
    return wk.cache[k]


# --------------------------------------------------------------------------------------


def check(run: Run) -> None:
    from . import c20_purity

    thorough = run.tier == "thorough"
    run.rule = ("behaviours = call histories enumerated by TLC from NonceLife / SignerLife / WalletLedger "
                "(exhaustive to the stated depth, plus -simulate walks); a behaviour is non-trivial when it "
                "contains at least one state-changing call followed by another call; events = answers of pure "
                "API calls under cache clears / backend flips / threads, validated against MemoCache")
    run.assumptions = [
        "TLC 1.8 and the JDK are trusted; the projection functions (first 64 bytes of the secnonce, "
        "wallet.addresses / len / address_info, returned value classes) are the abstract state",
        "thread interleavings are enumerated at call granularity only (CPython preemption inside a call is not controlled)",
    ]
    # ---- M ----
    _model(run, "NonceLife", NONCE_M, "M NonceLife", ["SignOK", "SignSessionBad", "SignKeyMismatch", "SignSpent", "Other"])
    _model(run, "SignerLife", signer_cfg(["m1", "m2"], ["wipe", "exit"], 0, False), "M SignerLife", ["Sign", "End", "Flip"])
    _model(run, "WalletLedger", wallet_cfg([0, 1], [2], [0, 1, 2, 3] if thorough else [0, 1, 2], ["k1", "k2"] if thorough else ["k1"], 6 if thorough else 4, False),
           "M WalletLedger", ["Address", "AddressRefused", "NextAddress", "NextRefused", "AddKey", "PositionOf"])

    replayed = 0
    nontrivial = 0
    # ---- G: nonce ----
    world = NonceWorld(run.seed)
    behs = _generate(run, "NonceLife", nonce_g(6 if thorough else 5), "G NonceLife exhaustive")
    behs += _generate(run, "NonceLife", nonce_g(14), "G NonceLife simulate", simulate=3000 if thorough else 300, depth=14)
    for b in behs:
        replay_nonce(run, world, b, "ecc.musig2.sign")
        replay_nonce_spellings(run, world, b, "ecc.musig2.sign")
        replayed += 1
        nontrivial += any(e[3] == "sig" for e in b[0][:-1])
    run.sample({"machine": "NonceLife", "behaviour": behs[len(behs) // 2][0]})
    # ---- G: signers ----
    sk = SignerKinds()
    for kind in sk.kinds():
        methods = sorted(kind["methods"])
        kills = sorted(kind["kill"])
        depth = 5 if thorough else (4 if len(methods) <= 3 else 3)
        behs = _generate(run, "SignerLife", signer_cfg(methods, kills, depth, True), f"G SignerLife {kind['name']}")
        behs += _generate(run, "SignerLife", signer_cfg(methods, kills, 10, True), f"G SignerLife {kind['name']} simulate",
                          simulate=400 if thorough else 60, depth=10)
        for b in behs:
            replay_signer(run, sk, kind, b)
            replayed += 1
            nontrivial += any(e[0] == "kill" for e in b[0][:-1])
        run.sample({"machine": "SignerLife", "kind": kind["name"], "behaviour": behs[len(behs) // 3][0]})
    # ---- G: wallets ----
    wk = WalletKinds()
    kinds = wk.kinds()
    wb = _generate(run, "WalletLedger", wallet_cfg([0, 1], [2], [0, 2], [], 4 if thorough else 3, True), "G WalletLedger exhaustive")
    wb += _generate(run, "WalletLedger", wallet_cfg([0, 1], [2], [0, 1, 2, 3, 7], ["k1", "k2"], 12, True),
                    "G WalletLedger simulate", simulate=2000 if thorough else 250, depth=12)
    for kind in kinds:
        for b in wb:
            if replay_wallet(run, wk, kind, b):
                replayed += 1
                nontrivial += sum(1 for e in b[0] if e[3][0] == "pos") >= 2
    run.sample({"machine": "WalletLedger", "behaviour": wb[len(wb) // 2][0], "ledger": wb[len(wb) // 2][1]})
    run.count(evaluations=replayed, validated=replayed, nontrivial=nontrivial)
    # ---- V: purity / history independence ----
    c20_purity.check(run)


def replay(path: str) -> int:
    import json

    from ..core import Run as _Run

    body = json.load(open(path))
    run = _Run("C20", "quick")
    run.findings = []
    m = body.get("machine")
    if m == "NonceLife":
        replay_nonce(run, NonceWorld(body.get("seed", 1)), [body["history"]], "replay")
    elif m == "SignerLife":
        sk = SignerKinds()
        kind = next(k for k in sk.kinds() if k["name"] == body["kind"])
        replay_signer(run, sk, kind, [body["history"]])
    elif m == "WalletLedger":
        wk = WalletKinds()
        kind = next(k for k in wk.kinds() if k["name"] == body["kind"])
        hist = body["history"]
        ledger: list[Any] = []
        for e in hist:
            if e[3][0] in ("pos", "key") and e[3] not in ledger:
                ledger.append(e[3])
        replay_wallet(run, wk, kind, [hist, ledger])
    else:
        from . import c20_purity

        return c20_purity.replay(body)
    for v in run.violations:
        print(f"VIOLATION property=C20 replay={path}  # {v['what']}")
    return 1 if run.violations else 0
