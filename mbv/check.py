"""./check <property> --tier quick|thorough [--replay path]"""

from __future__ import annotations

import argparse
import importlib
import os
import sys

from . import core


def main() -> int:
    ap = argparse.ArgumentParser()
    ap.add_argument("property")
    ap.add_argument("--tier", default=os.environ.get("VERIF_TIER", "quick"), choices=["quick", "thorough"])
    ap.add_argument("--replay", default=None)
    a = ap.parse_args()
    pid = a.property.upper()
    try:
        mod = importlib.import_module(f"mbv.props.{pid.lower()}")
    except ModuleNotFoundError as e:
        print(f"MACHINERY FAILURE property={pid}: {e}", file=sys.stderr)
        return 2
    if a.replay:
        return mod.replay(a.replay)
    return core.main_wrapper(lambda run: mod.check(run), pid, a.tier)


if __name__ == "__main__":
    sys.exit(main())
