"""Compile the TLC operator overrides and run the specification's primitive self-tests."""

from __future__ import annotations

import hashlib
import subprocess
import sys

from . import CM_JAR, JAVA_OUT, JAVA_SRC, TLA_JAR


def _digest() -> str:
    h = hashlib.sha256()
    for p in sorted(JAVA_SRC.rglob("*.java")):
        h.update(p.name.encode())
        h.update(p.read_bytes())
    return h.hexdigest()


def ensure_built(force: bool = False) -> None:
    stamp = JAVA_OUT / ".stamp"
    want = _digest()
    if not force and stamp.exists() and stamp.read_text() == want:
        return
    JAVA_OUT.mkdir(parents=True, exist_ok=True)
    srcs = [str(p) for p in sorted(JAVA_SRC.rglob("*.java"))]
    subprocess.run(
        ["javac", "-nowarn", "-cp", f"{TLA_JAR}:{CM_JAR}", "-d", str(JAVA_OUT), *srcs],
        check=True,
    )
    stamp.write_text(want)


def main() -> int:
    ensure_built(force=True)
    from . import selftest

    return selftest.main()


if __name__ == "__main__":
    sys.exit(main())
