"""Regenerate MANIFEST.json from the table of built checks (python -m mbv.manifest)."""

from __future__ import annotations

import json
import subprocess

from . import ROOT

TRUSTED = ("Trusted base: TLC/SANY 1.8 and the JDK (BigInteger, MessageDigest, Normalizer), ~300 lines of Java glue "
           "(java/verif), the Python drivers/projections under mbv/, and btclib's own lower layers where a check "
           "builds material with them. Bounds are per evidence file.")

CHECKS: dict[str, dict[str, str]] = {
    "C01": {
        "text": ("TLC checks the affine chord-and-tangent group law (spec/ECGroup.tla) on every curve over F_p for small p "
                 "(closure, identity, inverse, commutativity, associativity, Lagrange, Hasse, double-and-add = repeated "
                 "addition); TLC-generated tables (k |-> kG, point sets, SEC 1 validation verdicts, inverse / square-root "
                 "tables by definition) are replayed into every public and private multiplication routine of btclib.curves "
                 "and btclib.number_theory; events from the 27 catalogued curves are recomputed by TLC with BigNat arithmetic."),
        "technique": "TLA+ group-law specification model-checked with TLC; TLC-generated case tables replayed into btclib; real-size events validated by TLC",
        "design_ref": "DESIGN.md section 4 C01",
    },
    "C02": {
        "text": ("TLC model-checks the ECDSA sign/verify/recover machine on toy groups (every challenge x key x nonce triple verifies, is low-s "
                 "when asked, recovers exactly the signer's key; Verify is true for no (r, s) in 0..n+1 outside the SEC 1 set) and the strict DER "
                 "parser as a byte-at-a-time machine over all strings on a 15-symbol alphabet (accepted => canonical); the tables and strings "
                 "TLC generates are replayed into dsa.sign_/sign_recoverable_/verify_/recover_*/crack_prv_key_var_/Sig.parse; RFC 6979 nonces, "
                 "signatures, low-R grinding, key ids, DER bytes and verification verdicts recorded at real size (10 catalogued curves incl. the two of cofactor 4 and three whose order is longer than a digest + toy "
                 "groups, 3 hash functions, both arms) are recomputed by TLC."),
        "technique": "TLA+ ECDSA / RFC 6979 / DER specification; TLC model checking on toy groups, table replay into btclib, real-size trace validation",
        "design_ref": "DESIGN.md section 4 C02",
    },
    "C03": {
        "text": ("The BIP340 specification (validated on the BIP's 19 vectors) recomputes byte for byte the signatures btclib makes on secp256k1 "
                 "(both arms) and 7 other curves x 3 hash functions, and the verdicts of verify_ on boundary (x, r, s); on toy prime-order groups "
                 "TLC computes the complete acceptance table over every (x, r, s) incl. r = p, s = n and validates recorded batch verdicts with the "
                 "coefficient vector existentially quantified (a TRUE for a batch with one bad member has no explanation); real-size batches up to "
                 "the Bos-Coster threshold incl. cancelling pairs and members repeated under another message must equal the conjunction of single verifications; keys that are "
                 "no field element (wider than the field's octets, negative) answer False on both arms."),
        "technique": "TLA+ BIP340 specification; TLC-generated acceptance tables replayed into btclib; trace validation with an existentially quantified batch coefficient",
        "design_ref": "DESIGN.md section 4 C03",
    },
    "C04": {
        "text": ("Backend.tla states the design (the outcome of a call is F[op, args] for an F that does not read the backend flag); ~900 "
                 "(entry point, argument) pairs covering every dual-path API -- valid arguments and each argument malformed one way -- are called "
                 "with the bindings serving, switched off, and along random histories with flips in between (objects built on one arm used on the "
                 "other); TLC validates the recorded trace against PurityTrace, where F is not logged: the trace is accepted iff one F explains "
                 "the value digest or exception class seen on both arms. The paired calls include every leaf version of a control block, both parities of a taproot input's key "
                 "and every spelling of octets (bytes, bytearray, memoryview, hex)."),
        "technique": "TLA+ backend-independence model; paired-arm call traces validated by TLC with the result function existentially quantified",
        "design_ref": "DESIGN.md section 4 C04",
    },
    "C05": {
        "text": ("TLC checks that the small grammars (CompactSize, var-bytes, witness, TxOut) are canonical over ALL byte strings on a boundary "
                 "alphabet up to a length (WireModel) and the same strings are replayed into btclib's parsers; for every one of the ~55 classes "
                 "with a parse/serialize pair (found by introspection) valid encodings and their structure-aware mutations are recorded with "
                 "check_validity on and off and validated by TLC: grammar verdict, re-serialization, sizes/ids (ten transcribed grammars), the "
                 "class-independent canonical round-trip law (all classes), JSON round trip, PSBT fixed point keeping every key-value pair; every position of an encoding is "
                 "bumped by one whatever the sampling budget, length bytes are grown over an inserted zero (DER-style padding), and objects are built at every count "
                 "boundary (CompactSize widths, each declared limit and one past it) and must parse back."),
        "technique": "TLA+ wire grammars (serializer + parser per class) model-checked with TLC; recorded parse/serialize events validated against them",
        "design_ref": "DESIGN.md section 4 C05",
    },
    "C06": {
        "text": ("TLC checks on the specification that bech32/bech32m round-trip, that no string at Hamming distance 1 or 2 from a valid one is "
                 "valid, that bit regrouping is invertible, that address and scriptPubKey are inverse maps on every version x length x network and "
                 "that no prefix is shared by main and test networks; every recorded decode/encode of Base58Check, bech32(m), segwit address, WIF "
                 "and address<->script on valid strings and their single-character substitutions, transpositions, case flips, truncations and "
                 "extensions is recomputed by TLC with the BIPs' reference algorithms, as are segwit strings with every padding defect (surplus characters, non-zero partial "
                 "groups) under a recomputed checksum, every key spelling (WIF, xprv, xpub, SLIP132 versions, octets) read with every declared network of the five "
                 "(which network answers, which addresses it gives), and every ScriptPubKey constructor on every network (remembered network, address). BIP21 payment URIs are specified on bytes "
                 "(Bip21: scheme, fragment, percent-decoding with strict UTF-8, amount grammar and satoshi exactness, repeated names, the req- rule); TLC checks "
                 "serialize-then-parse over a hostile alphabet and the recorded parses/serializations of ~400 URIs are recomputed."),
        "technique": "TLA+ transcription of the BIP173/350 reference decoder, Base58Check and address templates; TLC model checking + trace validation",
        "design_ref": "DESIGN.md section 4 C06",
    },
    "C07": {
        "text": ("TLC checks BIP32's laws (neuter/derive commutation, hardened-from-public refusal, parent recovery, refusal of an invalid child) "
                 "on an abstract instantiation where the IL >= n and zero-child cases are reachable; at real size every extended key recorded from "
                 "rootxprv_from_seed / derive (one call, every split, string spellings, from the public side) / xpub_from_xprv / fingerprint / "
                 "derive_from_account / bip85 over seeds x paths with boundary indexes x BIP32 and SLIP132 versions x both arms is recomputed "
                 "field by field by TLC (HMAC-SHA512 and secp256k1 written in TLA+), as are the step tweaks of a public derivation at the hardened boundary, the master "
                 "key as an object under private, public and unknown versions, and BIP85's applications from the BIP's own path table (language numbers of 39')."),
        "technique": "TLA+ BIP32 specification (HMAC-SHA512 + EC in TLA+); TLC model-checks the laws on an abstract group and validates recorded derivations",
        "design_ref": "DESIGN.md section 4 C07",
    },
    "C08": {
        "text": ("A byte-level transcription of Core's EvalScript / VerifyScript / VerifyWitnessProgram (every opcode but the signature family, all "
                 "limits, MINIMALDATA / MINIMALIF / CLTV / CSV / NOP / CLEANSTACK / SIGPUSHONLY / witness malleation rules, P2SH and witness v0) "
                 "is first held to Core's script_tests.json (996 signature-free vectors: identical verdicts); TLC then builds every program over "
                 "five chunk families up to a length with machine invariants checked in each state, and each program is run through "
                 "engine.script.verify_script (verdict and final stack compared); random spends (bare, P2SH, P2WSH, P2SH-P2WSH, unknown witness "
                 "versions, mutated scriptSigs/witnesses) under random consistent flag subsets are validated by TLC. The signature opcodes are decided "
                 "by module ScriptSigs (EvalChecksig, CHECKMULTISIG, P2WPKH, taproot key/script paths over the specification's sighashes, ECDSA and "
                 "BIP340): it is held to ALL 1228 vectors of script_tests.json on Core's own crediting/spending transactions (1205 identical verdicts, 23 "
                 "lax-DER vectors outside it), the library is run on the same transactions, and CHECKSIG / CHECKMULTISIG spends with real signatures "
                 "in every state (valid, empty, wrong key, wrong order, high s, padded r, hash type 0, hybrid/uncompressed keys; bare, P2SH, P2WSH, "
                 "P2SH-P2WSH; with and without OP_NOT) under random flag subsets are judged by it, in stratified cells (signature pattern x NOT x CHECKSIG/CHECKMULTISIG; key form "
                 "incl. malformed ones x wrapping x STRICTENC/WITNESS_PUBKEYTYPE), with tapscript signature spends (keys of every size class, runs across the validation-weight "
                 "budget, OP_SUCCESSx and oversized pushes before and after each other)."),
        "technique": "TLA+ transcription of Core's script interpreter validated on Core's vectors; TLC-generated programs replayed into the engine; spends validated as traces",
        "design_ref": "DESIGN.md section 4 C08",
    },
    "C09": {
        "text": ("TLC checks the commitment matrix of the three algorithms on the specification (SigHashModel: digest changes iff the BIPs "
                 "say the hash type commits to the field, 810 combinations); digests recorded from every public route -- sig_hash.legacy / "
                 "segwit_v0 / taproot, PrecomputedTxData, from_tx, psbt.ecdsa_sig_hash / taproot_sig_hash and PsbtView on v0 and v2 PSBTs -- "
                 "over generated transactions, script codes and all 256 low hash-type bytes are recomputed by TLC from preimages assembled "
                 "in TLA+ (Wire + SigHash), incl. one-byte annexes and digests asked again after the caller wrote into the transaction a psbt or a view handed it."),
        "technique": "TLA+ transcription of the legacy/BIP143/BIP341 preimages; TLC model-checks the commitment matrix and validates recorded digests",
        "design_ref": "DESIGN.md section 4 C09",
    },
    "C10": {
        "text": ("Module ScriptSigs is Bitcoin Core's VerifyScript with the signature opcodes (EvalChecksig, CHECKMULTISIG, P2WPKH, taproot key and script paths) over the "
                 "specification's own signature hashes, ECDSA and BIP340; TLC judges every input of every transaction with it and the verdict is compared with the library "
                 "engine's. Transactions: every script type the library's signer completes, alone and mixed, x every signature hash type, built as PSBTs, signed, "
                 "finalized and extracted (standard, consensus and no flags); every single change to outputs, sequences, spent amounts, lock time, version, outpoints, "
                 "witness signatures (bytes appended, last byte changed); wsh(miniscript) spends from the library's satisfier; BIP322 simple signatures and proofs of "
                 "funds (incl. a forged first-input utxo); Bitcoin message signatures for their own and for other addresses, also through a wallet for both spellings of a key; "
                 "tr() descriptors with script leaves (pk, multi_a, miniscript, a key in two leaves) signed and spent leaf by leaf."),
        "technique": "TLA+ specification of script verification with signature opcodes; the library engine's verdicts on signed and tampered transactions validated as traces by TLC",
        "design_ref": "DESIGN.md section 4 C10",
    },
    "C11": {
        "text": ("The Combiner is specified on the wire: a PSBT is its key-value maps and the result of a combine is, map by map, the union of the operands' pairs "
                 "(tx_modifiable: modifiable bits AND, the others OR); TLC model-checks the coordinator/signers machine (lossless, nothing invented, idempotent, only "
                 "signature pairs accepted). Recorded and validated by TLC: combines of every order and bracketing over PSBTs whose non-structural pairs were dealt to "
                 "2-3 copies (built and signed by the library over several script types, v0 and v2 with sequence 0 / required lock times / explicit SIGHASH_DEFAULT, "
                 "the BIP vectors, enriched copies); assert_signatures_only on honest answers and on every single-pair tampering; sign, request_signatures, finalize, "
                 "to_v0/to_v2 checked for the unsigned transaction (re-derived from the maps per BIP370), for their arguments being left unchanged and for shared objects; "
                 "PsbtView (the streamed reader) is compared map by map, transaction and lock time with the parsed object."),
        "technique": "TLA+ specification of the PSBT roles over key-value maps model-checked with TLC; recorded combines, signer answers and role calls validated as traces",
        "design_ref": "DESIGN.md section 4 C11",
    },
    "C12": {
        "text": ("TLC checks on the BIP341 specification itself that, for every tree shape up to three leaves and the balanced four-leaf shape over "
                 "two scripts and two keys, every leaf's control block verifies, no leaf verifies with another leaf's path, and the tweaked "
                 "private key opens the output key; output keys, tweaked private keys and control blocks recorded from taproot.output_pubkey / "
                 "output_prvkey / input_script_sig (all key spellings, combs to 40 leaves, both arms) and from tr() descriptors are recomputed by "
                 "TLC; single-bit alterations of control block, script and key, +-32 bytes and foreign paths must not verify, both through "
                 "check_output_pubkey and through verify_input, incl. combs whose deepest leaf is at depth 128, spends at depths 127/128/129 and leaf scripts around 520 bytes."),
        "technique": "TLA+ BIP341 specification model-checked with TLC on small trees; recorded outputs/control blocks and altered proofs validated as traces",
        "design_ref": "DESIGN.md section 4 C12",
    },
    "C13": {
        "text": ("BIP39 (index coding, checksum, PBKDF2 seed with NFKD), Electrum (base-2048/1626 coding, version prefix with the 2fa word-count rule, seed) and SLIP-0039 "
                 "(RS1024, share codec, GF(256) interpolation, digest share, Feistel cipher over PBKDF2, two-level recovery) are TLA+ specifications evaluated by TLC with "
                 "SHA-2/HMAC/NFKD overrides. TLC splits a secret with the specification's own Split/Encode for 3-7 configurations, checks every qualifying selection in "
                 "both orders, a wrong passphrase and a selection below threshold, and hands the shares to the implementation to recover (specification -> code). "
                 "Recorded from the code and recomputed by TLC: sentences of 12 languages x 5 sizes, single-word substitutions, seeds under NFKD-sensitive passphrases, "
                 "Electrum versions and integers in 12 languages, library-made SLIP39 shares of 4-6 secret lengths (recovery, wrong passphrase, below threshold, a changed "
                 "word), thresholds of 16, compatibility-character passphrases, BIP85 entropy on every path whose derived key starts with a zero byte, and mnemonic.dispatch "
                 "(which schemes claim a sentence in the language named: SeedTypes)."),
        "technique": "TLA+ BIP39/Electrum/SLIP-0039 specifications; TLC-made shares replayed into the implementation; recorded sentences, seeds, recoveries and BIP85 entropy validated as traces",
        "design_ref": "DESIGN.md section 4 C13",
    },
    "C14": {
        "text": ("Descriptors are specified as abstract syntax trees whose scripts at an index are the BIP32 derivation of every key (modules BIP32/ECReal) assembled "
                 "with the standard templates (sortedmulti ordering, tr() trees through module Taproot, combo) and whose addresses are module Address's; the BIP380 "
                 "checksum is specified on 40-bit words. TLC recomputes, for every function and nesting x 8 key spellings (ranged, fixed and hardened steps, hardened "
                 "wildcards through private keys, origins, raw and uncompressed keys) x indexes up to 2^31-1 x two networks, the scripts, addresses and revealed "
                 "redeem/witness scripts the library derives; checksums; that an intact checksummed string parses and that every changed checksum character (and "
                 "sampled body characters) is refused; round trips, multipath expansion, index_of/position_of on derived and foreign scripts; and the scripts and "
                 "addresses of BIP32 key wallets, descriptor wallets with arbitrary branch labels and script-template wallets in three embeddings."),
        "technique": "TLA+ descriptor specification (BIP32 derivation + script templates + BIP380 checksum) evaluated by TLC; recorded derivations, parses and positions validated as traces",
        "design_ref": "DESIGN.md section 4 C14",
    },
    "C15": {
        "text": ("Module Miniscript is BIP379's fragment-to-script table and the spending condition of an expression; the harness writes expressions as trees (46 "
                 "hand-written ones covering every fragment and wrapper plus randomly composed ones the library's type system accepts) and TLC compares the compiled "
                 "script and its predicted size with the specification's compilation; read-back and re-parse are recorded. The correctness half of BIP379's type system "
                 "(base type B/V/K/W and the z/o/n/d/u modifiers) is specified too and the library's verdict and type are compared on well- and ill-typed expressions. For scenarios of available signatures, "
                 "preimages and (version, lock time, sequence) classes, a satisfaction is produced only when the specification's spending condition holds, and when "
                 "produced the specification's own engine (ScriptSigs) accepts the spend and the witness stays within the predicted items, bytes and executed ops "
                 "(counted by the specification's machine); the psbt route through miniscript_solver is run with two inputs. Every expression is also spent with the lock fields "
                 "on either side of each of its older()/after(); a dissatisfiable sub-expression sits under everything that dissatisfies it; scripts of 3599/3600/3601 bytes; "
                 "the tapscript context (x-only keys, multi_a, BIP340 over the tapleaf, many-key expressions against the budget)."),
        "technique": "TLA+ miniscript compilation/condition specification and script engine; recorded compilations and satisfactions validated as traces by TLC",
        "design_ref": "DESIGN.md section 4 C15",
    },
    "C16": {
        "text": ("BIP327 is specified generically in curve and hash; TLC runs a whole session (nonce round, signing round, verification of every partial signature, "
                 "aggregation, adaptor completion and extraction) on a toy curve of 31 points for EVERY choice of private keys incl. duplicates, every sequence of up "
                 "to 2 plain/x-only tweaks, several nonces, with and without adaptor, so the parity bookkeeping (gacc, tacc, negated nonces and keys) is checked "
                 "exhaustively. On secp256k1, sessions recorded from ecc.musig2 are recomputed by TLC (aggregate key, every partial verification, the aggregate, BIP340 "
                 "validity, adaptor round trip); ECDH/X9.63-KDF and BIE1 keys, BIP374 proofs with altered statements, BIP352 sender outputs (address order, "
                 "labels, repeats), both scanners and the spend key are recomputed from the TwoParty specification; ECIES round trips over every key spelling and "
                 "ElligatorSwift exchanges are checked for agreement, and the SwiftEC map and the x-only ECDH secret are recomputed (EllSwift) on three Koblitz curves incl. boundary field elements. BIP373 sessions run over a psbt (each signer on its own copy, combined, aggregated, finalized, spent) "
                 "are recomputed from what the psbt says in the four ways an aggregate key reaches the spent key (BIP341 tweak, BIP328 derivation, leaf key). Borromean ring "
                 "signatures and Pedersen commitments are specified generically (RingSig): signing is model-checked on the toy curve for every ring shape, signer position and "
                 "key, and secp256k1 signatures, six kinds of alteration and commitments are recomputed."),
        "technique": "TLA+ BIP327 / two-party specifications; toy-curve session model-checked exhaustively with TLC; recorded secp256k1 sessions, proofs and payments validated as traces",
        "design_ref": "DESIGN.md section 4 C16",
    },
    "C17": {
        "text": ("TLC model-checks: the merkle tree with a collision-free hash over every list of up to 5-6 leaves with repeats (a branch proves its leaf at its "
                 "index and no other leaf or index, the padded tail is no position, two lists with one root imply a mutation flag); the Golomb-Rice set codec "
                 "(decode o encode = id, one encoding per set); the compact-target codec on 43 exponents x 22 significands (inverse on canonical values, never "
                 "rounds up, never writes the sign bit, monotone); the BIP152 relay machine with forced short-id collisions. Recorded from the code and recomputed "
                 "by TLC (SHA256 and SipHash-2-4 inside the specification): merkle roots/flags with the real and a structural hash, branch roots and "
                 "merkle_proof.verify under every tampering incl. a 64-byte-transaction inner node, header-root and BIP141 commitment checks on 14 block "
                 "variants, BIP158 filters (incl. an engineered value collision), match for every member, decoding of damaged filters, target/bits/next_bits/"
                 "work, short ids, reconstruct and fill against five kinds of pool under several nonces."),
        "technique": "TLA+ specifications of merkle tree, Golomb-coded set, compact target and compact-block relay model-checked with TLC; recorded commitments validated as traces",
        "design_ref": "DESIGN.md section 4 C17",
    },
    "C18": {
        "text": ("TLC model-checks the change-or-fee decision (Accounting.Fund) over small parameters for conservation, rate paid on the final size, no dust "
                 "change, honest refusal, bounded overpayment and monotonicity. Recorded from the code and recomputed by TLC: size/weight/vsize of transactions "
                 "and blocks on both sides of every CompactSize boundary (from the wire grammar), input_weight, fee_from_vsize and package_fee, BTC/sat and "
                 "sat/vB/sat/kvB quotes in every spelling under several ambient decimal contexts, Core's dust threshold, build_psbt with the input value swept "
                 "across each decision boundary for every input script type and change script (the estimate re-derived from the specification's per-type spend "
                 "sizes), and the estimate against what the library's signer and finalizer emit for every signable type and taproot sighash type; funding across the 252/253-output "
                 "width; output totals around the money range handed to Tx, Psbt v0/v2 and the builder."),
        "technique": "TLA+ accounting specification model-checked with TLC; recorded size/fee/conversion/funding/signing events validated as traces against it",
        "design_ref": "DESIGN.md section 4 C18",
    },
    "C19": {
        "text": ("The outcome alphabet of every call (parser: returned|refused; predicate: true|false; consumer: returned|refused) and the caller's-stream "
                 "reader (StreamSession: FIFO exactly-once delivery, position on an object boundary, `missing` exact, rewind on incomplete) are TLA+ "
                 "specifications; TLC model-checks the stream reader and enumerates fault-injected transaction encodings (every single fault, pairs in "
                 "the thorough tier) labelled by the wire grammar. Every class parse found by introspection (check_validity on/off), the function "
                 "parsers, text decoders, from_dict constructors and verify-style predicates are called on that corpus, on byte-, element- and "
                 "container-level near misses of valid encodings (two levels deep), on type-confused JSON and hostile text; accepted objects are "
                 "handed to every property and argument-free method they offer and to the sighash/engine/size consumers; reader sessions with every "
                 "cut point are recorded from Message.parse and the other stream parsers; objects parsed from hostile text and accepted PSBTs (incl. copies with boundary scripts) "
                 "go through every role; any integer where a position is asked for; deep nestings; a valid call with its octets as bytearray / memoryview answers the same. "
                 "All recorded calls are validated by TLC as traces."),
        "technique": "TLA+ outcome-alphabet and stream-reader specifications; TLC-enumerated fault-injected encodings replayed into the parsers; recorded calls and reader sessions validated as traces with TLC",
        "design_ref": "DESIGN.md section 4 C19",
    },
    "C20": {
        "text": ("TLC model-checks the NonceLife / SignerLife / WalletLedger / MemoCache machines (invariants and action "
                 "properties, exhaustive on small constants); every behaviour TLC enumerates to a depth (plus -simulate "
                 "walks) is replayed on real btclib objects and the projected state compared after each call; answers of "
                 "~125 pure calls under cache clears, backend flips and 8 threads are validated by TLC against PurityTrace, as is a word-list registry filled by four threads at once; "
                 "the secret nonce is also held in every spelling (bytes, hex, memoryview)."),
        "technique": "TLA+ life-cycle machines model-checked with TLC; TLC-generated behaviours replayed into btclib; trace validation of call answers",
        "design_ref": "DESIGN.md section 4 C20",
    },
}

REASONS_PENDING = "check not built yet (build in progress, see DESIGN.md section 9)"


def main() -> None:
    ids = [json.loads(line)["id"] for line in (ROOT / "properties.jsonl").read_text().splitlines() if line.strip()]
    hooks_commits: list[str] = []
    checks = []
    for pid in ids:
        if pid not in CHECKS:
            continue
        c = CHECKS[pid]
        checks.append({
            "property_id": pid,
            "quick_cmd": f"./check {pid} --tier quick",
            "thorough_cmd": f"./check {pid} --tier thorough",
            "evidence_file": f"/verif/evidence/{pid}.json",
            "replay_cmd_template": f"./check {pid} --replay {{path}}",
            "engine": "mbv",
            "level_claimed": {"category": "model_checking", "text": c["text"], "design_ref": c["design_ref"]},
            "level_note": c.get("note", TRUSTED),
            "technique": c["technique"],
        })
    m = {
        "version": 1,
        "setup_cmd": "./setup.sh",
        "hooks": {
            "guard": "BTCLIB_VERIF",
            "enable": "no hook is needed by the registered checks (the API exposes the abstract state); "
                      "BTCLIB_VERIF=1 is reserved for instrumentation",
            "baseline_off_cmd": "cd /repo && env -u BTCLIB_VERIF /venv/bin/python -m pytest -ra -q -p no:cacheprovider "
                                "--timeout=900 --continue-on-collection-errors",
            "source_commits": hooks_commits,
            "add_only": True,
        },
        "engines": [{
            "name": "mbv",
            "path": "/verif/mbv",
            "serves_properties": [c["property_id"] for c in checks],
            "kind_free_text": "explicit TLA+ specification (spec/*.tla) checked by TLC with BigInteger/hash operator "
                              "overrides; bound to btclib by replaying TLC-generated behaviours and by validating "
                              "recorded events/traces with TLC",
        }],
        "checks": checks,
        "not_applicable": [{"property_id": i, "reason": REASONS_PENDING} for i in ids if i not in CHECKS],
        "notes": "Fixes made to /repo are listed in known_findings.json (kind=fixed). Exit codes: 0 held, 1 VIOLATION, "
                 "2 machinery failure.",
    }
    (ROOT / "MANIFEST.json").write_text(json.dumps(m, indent=1) + "\n")
    subprocess.run(["python3-vt", "-c",
                    "import json,jsonschema;jsonschema.validate(json.load(open('/verif/MANIFEST.json')),"
                    "json.load(open('/root/.vp/MANIFEST.schema.json')));print('manifest ok')"], check=False)


if __name__ == "__main__":
    main()
