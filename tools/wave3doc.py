#!/venv/bin/python
"""tools/wave3doc.py -- refresh the third-wave rows and counts of DESIGN.md 12.6 from seeded/*/meta.json (idempotent)."""
import json, pathlib, re, subprocess
rows = subprocess.run(["/verif/tools/seedtable.py", "7"], capture_output=True, text=True).stdout.strip()
p = "/verif/DESIGN.md"
s = open(p).read()
s = re.sub(r"<!-- wave3 rows begin -->.*?<!-- wave3 rows end -->", "<!-- wave3 rows begin -->\n" + rows + "\n<!-- wave3 rows end -->", s, flags=re.S)
metas = [json.loads((d / "meta.json").read_text()) for d in pathlib.Path("/verif/seeded").iterdir() if int(d.name.split("-")[1]) >= 7 and (d / "meta.json").exists()]
n = len(metas)
yes = sum(1 for m in metas if m["detected_by_check"] == "yes")
s = re.sub(r"Of the \d+\nreturned(?: so far)?, \d+ were caught at once and \d+ after", f"Of the {n}\nreturned, {yes} were caught at once and {n - yes} after", s)
open(p, "w").write(s)
print(n, yes)
