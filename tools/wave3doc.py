#!/venv/bin/python
"""tools/wave3doc.py -- refresh the third- and fourth-wave rows and counts of DESIGN.md 12.6 from seeded/*/meta.json (idempotent)."""
import json, pathlib, re

WAVE4 = {"C05-10", "C05-11", "C05-12", "C10-10", "C10-11", "C11-10", "C11-11", "C11-12", "C13-10", "C13-11", "C13-12", "C16-10", "C16-11", "C19-10"}


def rows_of(ids):
    out = []
    for d in sorted((pathlib.Path("/verif/seeded") / i for i in ids), key=lambda p: (p.name.split("-")[0], int(p.name.split("-")[1]))):
        m = json.loads((d / "meta.json").read_text())
        title = next((ln for ln in m["breaks"] if ln.strip()), "").lstrip("# ").strip()
        title = re.sub(r"^(C\d\d\s*/\s*round \d\s*/\s*)?[Mm]utant\s*\d+\s*(--|—|-|:)\s*", "", title)
        title = re.sub(r"^C\d\d mutant \d+\s*(--|—|-|:)\s*", "", title)
        out.append(f"| {d.name} | {title.replace('|', '/')} | {m['needs_to_manifest'].replace('|', '/')} | {m['detected_by_check']} |")
    return "\n".join(out), [json.loads((pathlib.Path('/verif/seeded') / i / 'meta.json').read_text()) for i in ids]


all_ids = [d.name for d in pathlib.Path("/verif/seeded").iterdir() if int(d.name.split("-")[1]) >= 7 and (d / "meta.json").exists()]
w3 = [i for i in all_ids if i not in WAVE4]
w4 = [i for i in all_ids if i in WAVE4]
p = "/verif/DESIGN.md"
s = open(p).read()
r3, m3 = rows_of(w3)
r4, m4 = rows_of(w4)
s = re.sub(r"<!-- wave3 rows begin -->.*?<!-- wave3 rows end -->", lambda _: "<!-- wave3 rows begin -->\n" + r3 + "\n<!-- wave3 rows end -->", s, flags=re.S)
s = re.sub(r"<!-- wave4 rows begin -->.*?<!-- wave4 rows end -->", lambda _: "<!-- wave4 rows begin -->\n" + r4 + "\n<!-- wave4 rows end -->", s, flags=re.S)
n, yes = len(m3), sum(1 for m in m3 if m["detected_by_check"] == "yes")
s = re.sub(r"Of the \d+\nreturned(?: so far)?, \d+ were caught at once and \d+ after", f"Of the {n}\nreturned, {yes} were caught at once and {n - yes} after", s)
open(p, "w").write(s)
print("wave 3:", n, yes, "wave 4:", len(m4), {k: sum(1 for m in m4 if m["detected_by_check"] == k) for k in ("yes", "after-strengthening", "no")})
