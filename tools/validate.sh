#!/bin/sh
# tools/validate.sh -- MANIFEST.json and every evidence file against the schemas in /root/.vp (uses the tooling venv's jsonschema)
python3-vt - <<'PY'
import glob, json, sys
import jsonschema
es = json.load(open('/root/.vp/EVIDENCE.schema.json'))
ms = json.load(open('/root/.vp/MANIFEST.schema.json'))
jsonschema.validate(json.load(open('/verif/MANIFEST.json')), ms)
bad = 0
for f in sorted(glob.glob('/verif/evidence/C*.json')):
    try:
        jsonschema.validate(json.load(open(f)), es)
    except jsonschema.ValidationError as e:
        bad += 1
        print(f, str(e).split("\n")[0][:200])
print("manifest valid;", len(glob.glob('/verif/evidence/C*.json')), "evidence files,", bad, "invalid")
sys.exit(1 if bad else 0)
PY
