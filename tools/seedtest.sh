#!/bin/sh
# tools/seedtest.sh <property> <patch.diff> [tier]  -- apply a seeded change to /repo, run the check, undo it.
set -u
P="$1"; PATCH="$2"; TIER="${3:-quick}"
cd /repo || exit 2
if ! git diff --quiet; then echo "seedtest: /repo has uncommitted changes, refusing"; exit 2; fi
git apply "$PATCH" || { echo "seedtest: patch does not apply"; exit 2; }
cd /verif
./check "$P" --tier "$TIER" > "/tmp/seed-$P.log" 2>&1
RC=$?
git -C /repo checkout -- .
echo "seedtest $P $(basename $(dirname $PATCH)) rc=$RC"
grep -E "^VIOLATION|MACHINERY|KNOWN" "/tmp/seed-$P.log" | head -5 | cut -c1-300
exit $RC
