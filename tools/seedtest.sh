#!/bin/sh
# tools/seedtest.sh <property> <patch.diff> [tier]
# Run a check against a seeded change WITHOUT touching /repo: the change is applied to a scratch worktree
# (/tmp/mut-<property>) that the check imports btclib from; evidence and replays go to a scratch directory.
# (Equivalent to: git -C /repo apply <patch>; ./check <P>; git -C /repo checkout -- .)
set -u
P="$1"; PATCH="$2"; TIER="${3:-quick}"
WT="/tmp/mut-$P"
HEAD=$(git -C /repo rev-parse HEAD)
if [ ! -d "$WT" ]; then git -C /repo worktree add -q --detach "$WT" "$HEAD" || exit 2; fi
git -C "$WT" checkout -q --detach "$HEAD" && git -C "$WT" checkout -q -- . || exit 2
git -C "$WT" apply "$PATCH" || { echo "seedtest: patch does not apply"; exit 2; }
cd /verif
mkdir -p "/tmp/seed-out-$P"
PYTHONPATH="$WT" BTCLIB_REPO="$WT" MBV_EVIDENCE_DIR="/tmp/seed-out-$P" MBV_REPLAYS_DIR="/tmp/seed-out-$P/replays" \
  ./check "$P" --tier "$TIER" > "/tmp/seed-$P-$(basename $(dirname $PATCH)).log" 2>&1
RC=$?
git -C "$WT" checkout -q -- .
echo "seedtest $P $(basename $(dirname $PATCH)) rc=$RC"
grep -E "^VIOLATION|MACHINERY|KNOWN" "/tmp/seed-$P-$(basename $(dirname $PATCH)).log" | head -4 | cut -c1-300
exit $RC
