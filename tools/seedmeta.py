#!/venv/bin/python
"""tools/seedmeta.py <seed-dir> <property> <caught:yes|no|after-strengthening> <needs...> -- write meta.json"""
import json, sys, pathlib
d = pathlib.Path(sys.argv[1]); prop = sys.argv[2]; caught = sys.argv[3]; needs = sys.argv[4]; ran = sys.argv[5] if len(sys.argv) > 5 else ""
notes = (d / "notes.md").read_text()[:1500] if (d / "notes.md").exists() else ""
meta = {"property": prop, "breaks": notes.splitlines()[0:12], "needs_to_manifest": needs, "detected_by_check": caught,
        "what_was_run": ran or f"git -C /repo apply {d}/patch.diff; ./check {prop} --tier quick; git -C /repo checkout -- .  (tools/seedtest.sh); "
        "demo.py run with and without the patch in the sub-agent's scratch worktree; existing tests of the touched area and the full suite pass with the patch (see notes.md)"}
(d / "meta.json").write_text(json.dumps(meta, indent=1))
print("wrote", d / "meta.json")
