"""Print the traceback behind every C19 replay (triage aid)."""
import glob, json, sys, traceback
sys.path.insert(0, "/verif")
from mbv.props import c19
table = {}
table.update(c19.binary_entry_points()); table.update({"text:"+k: v for k, v in c19.text_entry_points().items()})
table.update({k+".from_dict": v[0] for k, v in c19.dict_entry_points().items()}); table.update(c19.predicates())
for f in sorted(glob.glob(sys.argv[1] if len(sys.argv) > 1 else "/verif/replays/C19/*.json")):
    b = json.load(open(f)); ep = b.get("ep"); inp = b.get("input")
    if ep not in table: print("??", f, ep); continue
    arg = inp if ep.startswith("text:") or ep.endswith(".from_dict") else bytes.fromhex(inp)
    print("=" * 30, ep, b.get("outcome"))
    try: table[ep](arg); print("no exception")
    except Exception:
        tb = traceback.format_exc().splitlines()
        print("\n".join(l.encode("ascii","backslashreplace").decode() for l in tb[-9:]))
