#!/venv/bin/python
"""tools/seedtable.py <min-k> -- print the DESIGN 12.6 rows of the seeds numbered >= min-k from their meta.json"""
import json, pathlib, re, sys
mink = int(sys.argv[1]) if len(sys.argv) > 1 else 1
rows = []
for d in sorted(pathlib.Path("/verif/seeded").iterdir(), key=lambda p: (p.name.split("-")[0], int(p.name.split("-")[1]))):
    k = int(d.name.split("-")[1])
    if k < mink or not (d / "meta.json").exists():
        continue
    m = json.loads((d / "meta.json").read_text())
    title = next((ln for ln in m["breaks"] if ln.strip()), "").lstrip("# ").strip()
    title = re.sub(r"^(C\d\d\s*/\s*round 3\s*/\s*)?[Mm]utant\s*\d+\s*(--|—|-|:)\s*", "", title)
    title = re.sub(r"^C\d\d mutant \d+\s*(--|—|-|:)\s*", "", title)
    rows.append(f"| {d.name} | {title.replace('|', '/')} | {m['needs_to_manifest'].replace('|', '/')} | {m['detected_by_check']} |")
print("\n".join(rows))
