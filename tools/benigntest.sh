#!/bin/sh
# tools/benigntest.sh <patch.diff> <P> [<P> ...]: run the quick checks of the listed properties against a behaviour-preserving change
# (scratch worktrees, as tools/seedtest.sh); any VIOLATION is a false alarm of the machinery.
PATCH="$1"; shift
for P in "$@"; do /verif/tools/seedtest.sh "$P" "$PATCH" quick 2>&1 | head -3 | cut -c1-300; done
