#!/bin/sh
# Build the TLC operator overrides (BigNat / Hash / Text primitives) from source on disk.
set -e
cd "$(dirname "$0")"
exec /venv/bin/python -m mbv.build
