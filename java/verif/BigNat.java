package verif;

import java.math.BigInteger;

import tlc2.overrides.TLAPlusOperator;
import tlc2.value.impl.BoolValue;
import tlc2.value.impl.IntValue;
import tlc2.value.impl.Value;

/** Natural-number arithmetic on canonical big-endian byte sequences (module BigNat). */
public final class BigNat {
    private BigNat() {}

    @TLAPlusOperator(identifier = "BAdd", module = "BigNat", warn = false)
    public static Value add(final Value a, final Value b) {
        return V.nat(V.nat(a).add(V.nat(b)));
    }

    /** Truncated subtraction is NOT provided: a negative result is an error of the spec. */
    @TLAPlusOperator(identifier = "BSub", module = "BigNat", warn = false)
    public static Value sub(final Value a, final Value b) {
        return V.nat(V.nat(a).subtract(V.nat(b)));
    }

    @TLAPlusOperator(identifier = "BMul", module = "BigNat", warn = false)
    public static Value mul(final Value a, final Value b) {
        return V.nat(V.nat(a).multiply(V.nat(b)));
    }

    @TLAPlusOperator(identifier = "BDiv", module = "BigNat", warn = false)
    public static Value div(final Value a, final Value b) {
        return V.nat(V.nat(a).divide(V.nat(b)));
    }

    @TLAPlusOperator(identifier = "BMod", module = "BigNat", warn = false)
    public static Value mod(final Value a, final Value m) {
        return V.nat(V.nat(a).mod(V.nat(m)));
    }

    @TLAPlusOperator(identifier = "BAddMod", module = "BigNat", warn = false)
    public static Value addMod(final Value a, final Value b, final Value m) {
        return V.nat(V.nat(a).add(V.nat(b)).mod(V.nat(m)));
    }

    @TLAPlusOperator(identifier = "BSubMod", module = "BigNat", warn = false)
    public static Value subMod(final Value a, final Value b, final Value m) {
        return V.nat(V.nat(a).subtract(V.nat(b)).mod(V.nat(m)));
    }

    @TLAPlusOperator(identifier = "BMulMod", module = "BigNat", warn = false)
    public static Value mulMod(final Value a, final Value b, final Value m) {
        return V.nat(V.nat(a).multiply(V.nat(b)).mod(V.nat(m)));
    }

    @TLAPlusOperator(identifier = "BPowMod", module = "BigNat", warn = false)
    public static Value powMod(final Value a, final Value e, final Value m) {
        return V.nat(V.nat(a).modPow(V.nat(e), V.nat(m)));
    }

    @TLAPlusOperator(identifier = "BGcd", module = "BigNat", warn = false)
    public static Value gcd(final Value a, final Value b) {
        return V.nat(V.nat(a).gcd(V.nat(b)));
    }

    /** Defined only when gcd(a, m) = 1; the spec guards with BGcd. */
    @TLAPlusOperator(identifier = "BInvMod", module = "BigNat", warn = false)
    public static Value invMod(final Value a, final Value m) {
        return V.nat(V.nat(a).modInverse(V.nat(m)));
    }

    @TLAPlusOperator(identifier = "BCmp", module = "BigNat", warn = false)
    public static Value cmp(final Value a, final Value b) {
        return IntValue.gen(V.nat(a).compareTo(V.nat(b)));
    }

    @TLAPlusOperator(identifier = "BBitLen", module = "BigNat", warn = false)
    public static Value bitLen(final Value a) {
        return IntValue.gen(V.nat(a).bitLength());
    }

    @TLAPlusOperator(identifier = "BBit", module = "BigNat", warn = false)
    public static Value bit(final Value a, final Value i) {
        return IntValue.gen(V.nat(a).testBit(V.i(i)) ? 1 : 0);
    }

    @TLAPlusOperator(identifier = "BShl", module = "BigNat", warn = false)
    public static Value shl(final Value a, final Value k) {
        return V.nat(V.nat(a).shiftLeft(V.i(k)));
    }

    @TLAPlusOperator(identifier = "BShr", module = "BigNat", warn = false)
    public static Value shr(final Value a, final Value k) {
        return V.nat(V.nat(a).shiftRight(V.i(k)));
    }

    @TLAPlusOperator(identifier = "BAnd", module = "BigNat", warn = false)
    public static Value and(final Value a, final Value b) {
        return V.nat(V.nat(a).and(V.nat(b)));
    }

    @TLAPlusOperator(identifier = "BOr", module = "BigNat", warn = false)
    public static Value or(final Value a, final Value b) {
        return V.nat(V.nat(a).or(V.nat(b)));
    }

    @TLAPlusOperator(identifier = "BXor", module = "BigNat", warn = false)
    public static Value xor(final Value a, final Value b) {
        return V.nat(V.nat(a).xor(V.nat(b)));
    }

    @TLAPlusOperator(identifier = "BFromInt", module = "BigNat", warn = false)
    public static Value fromInt(final Value n) {
        return V.nat(BigInteger.valueOf(V.i(n)));
    }

    /** Defined only below 2^31. */
    @TLAPlusOperator(identifier = "BToInt", module = "BigNat", warn = false)
    public static Value toInt(final Value a) {
        return IntValue.gen(V.nat(a).intValueExact());
    }

    /** Any byte string read as a big-endian natural (leading zeros dropped). */
    @TLAPlusOperator(identifier = "BFromBytes", module = "BigNat", warn = false)
    public static Value fromBytes(final Value b) {
        return V.nat(new BigInteger(1, V.bytes(b)));
    }

    /** Big-endian, left-padded with zeros to exactly len bytes; an error if it does not fit. */
    @TLAPlusOperator(identifier = "BToBytes", module = "BigNat", warn = false)
    public static Value toBytes(final Value a, final Value len) {
        final byte[] raw = V.bytes(V.nat(V.nat(a)));
        final int n = V.i(len);
        if (raw.length > n) {
            throw new IllegalArgumentException("BToBytes: value needs " + raw.length + " bytes, " + n + " given");
        }
        final byte[] out = new byte[n];
        System.arraycopy(raw, 0, out, n - raw.length, raw.length);
        return V.seq(out);
    }

    @TLAPlusOperator(identifier = "BIsProbablePrime", module = "BigNat", warn = false)
    public static Value isProbablePrime(final Value a) {
        return V.nat(a).isProbablePrime(64) ? BoolValue.ValTrue : BoolValue.ValFalse;
    }

    @TLAPlusOperator(identifier = "BSqrtFloor", module = "BigNat", warn = false)
    public static Value sqrtFloor(final Value a) {
        return V.nat(V.nat(a).sqrt());
    }
}
