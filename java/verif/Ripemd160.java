package verif;

/** RIPEMD-160 (Dobbertin, Bosselaers, Preneel 1996), straight from the reference description. */
final class Ripemd160 {
    private Ripemd160() {}

    private static final int[] R1 = {
        0, 1, 2, 3, 4, 5, 6, 7, 8, 9, 10, 11, 12, 13, 14, 15,
        7, 4, 13, 1, 10, 6, 15, 3, 12, 0, 9, 5, 2, 14, 11, 8,
        3, 10, 14, 4, 9, 15, 8, 1, 2, 7, 0, 6, 13, 11, 5, 12,
        1, 9, 11, 10, 0, 8, 12, 4, 13, 3, 7, 15, 14, 5, 6, 2,
        4, 0, 5, 9, 7, 12, 2, 10, 14, 1, 3, 8, 11, 6, 15, 13};
    private static final int[] R2 = {
        5, 14, 7, 0, 9, 2, 11, 4, 13, 6, 15, 8, 1, 10, 3, 12,
        6, 11, 3, 7, 0, 13, 5, 10, 14, 15, 8, 12, 4, 9, 1, 2,
        15, 5, 1, 3, 7, 14, 6, 9, 11, 8, 12, 2, 10, 0, 4, 13,
        8, 6, 4, 1, 3, 11, 15, 0, 5, 12, 2, 13, 9, 7, 10, 14,
        12, 15, 10, 4, 1, 5, 8, 7, 6, 2, 13, 14, 0, 3, 9, 11};
    private static final int[] S1 = {
        11, 14, 15, 12, 5, 8, 7, 9, 11, 13, 14, 15, 6, 7, 9, 8,
        7, 6, 8, 13, 11, 9, 7, 15, 7, 12, 15, 9, 11, 7, 13, 12,
        11, 13, 6, 7, 14, 9, 13, 15, 14, 8, 13, 6, 5, 12, 7, 5,
        11, 12, 14, 15, 14, 15, 9, 8, 9, 14, 5, 6, 8, 6, 5, 12,
        9, 15, 5, 11, 6, 8, 13, 12, 5, 12, 13, 14, 11, 8, 5, 6};
    private static final int[] S2 = {
        8, 9, 9, 11, 13, 15, 15, 5, 7, 7, 8, 11, 14, 14, 12, 6,
        9, 13, 15, 7, 12, 8, 9, 11, 7, 7, 12, 7, 6, 15, 13, 11,
        9, 7, 15, 11, 8, 6, 6, 14, 12, 13, 5, 14, 13, 13, 7, 5,
        15, 5, 8, 11, 14, 14, 6, 14, 6, 9, 12, 9, 12, 5, 15, 8,
        8, 5, 12, 9, 12, 5, 14, 6, 8, 13, 6, 5, 15, 13, 11, 11};
    private static final int[] K1 = {0x00000000, 0x5A827999, 0x6ED9EBA1, 0x8F1BBCDC, 0xA953FD4E};
    private static final int[] K2 = {0x50A28BE6, 0x5C4DD124, 0x6D703EF3, 0x7A6D76E9, 0x00000000};

    private static int f(final int j, final int x, final int y, final int z) {
        switch (j / 16) {
            case 0: return x ^ y ^ z;
            case 1: return (x & y) | (~x & z);
            case 2: return (x | ~y) ^ z;
            case 3: return (x & z) | (y & ~z);
            default: return x ^ (y | ~z);
        }
    }

    static byte[] digest(final byte[] msg) {
        final long bitLen = (long) msg.length * 8;
        final int padded = ((msg.length + 8) / 64 + 1) * 64;
        final byte[] m = new byte[padded];
        System.arraycopy(msg, 0, m, 0, msg.length);
        m[msg.length] = (byte) 0x80;
        for (int i = 0; i < 8; i++) {
            m[padded - 8 + i] = (byte) (bitLen >>> (8 * i));
        }
        int h0 = 0x67452301;
        int h1 = 0xEFCDAB89;
        int h2 = 0x98BADCFE;
        int h3 = 0x10325476;
        int h4 = 0xC3D2E1F0;
        final int[] x = new int[16];
        for (int off = 0; off < padded; off += 64) {
            for (int i = 0; i < 16; i++) {
                x[i] = (m[off + 4 * i] & 0xff) | (m[off + 4 * i + 1] & 0xff) << 8
                    | (m[off + 4 * i + 2] & 0xff) << 16 | (m[off + 4 * i + 3] & 0xff) << 24;
            }
            int a1 = h0, b1 = h1, c1 = h2, d1 = h3, e1 = h4;
            int a2 = h0, b2 = h1, c2 = h2, d2 = h3, e2 = h4;
            for (int j = 0; j < 80; j++) {
                int t = Integer.rotateLeft(a1 + f(j, b1, c1, d1) + x[R1[j]] + K1[j / 16], S1[j]) + e1;
                a1 = e1; e1 = d1; d1 = Integer.rotateLeft(c1, 10); c1 = b1; b1 = t;
                t = Integer.rotateLeft(a2 + f(79 - j, b2, c2, d2) + x[R2[j]] + K2[j / 16], S2[j]) + e2;
                a2 = e2; e2 = d2; d2 = Integer.rotateLeft(c2, 10); c2 = b2; b2 = t;
            }
            final int t = h1 + c1 + d2;
            h1 = h2 + d1 + e2;
            h2 = h3 + e1 + a2;
            h3 = h4 + a1 + b2;
            h4 = h0 + b1 + c2;
            h0 = t;
        }
        final byte[] out = new byte[20];
        final int[] h = {h0, h1, h2, h3, h4};
        for (int i = 0; i < 5; i++) {
            for (int k = 0; k < 4; k++) {
                out[4 * i + k] = (byte) (h[i] >>> (8 * k));
            }
        }
        return out;
    }
}
