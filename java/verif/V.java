package verif;

import java.math.BigInteger;

import tlc2.value.impl.IntValue;
import tlc2.value.impl.StringValue;
import tlc2.value.impl.TupleValue;
import tlc2.value.impl.Value;

/** Conversions between TLC values and Java values. No Bitcoin knowledge. */
final class V {
    private V() {}

    static byte[] bytes(final Value v) {
        final TupleValue t = (TupleValue) v.toTuple();
        if (t == null) {
            throw new IllegalArgumentException("expected a sequence of bytes, got " + v);
        }
        final Value[] e = t.elems;
        final byte[] out = new byte[e.length];
        for (int i = 0; i < e.length; i++) {
            final int b = ((IntValue) e[i]).val;
            if (b < 0 || b > 255) {
                throw new IllegalArgumentException("byte out of range: " + b);
            }
            out[i] = (byte) b;
        }
        return out;
    }

    private static final IntValue[] BYTE = new IntValue[256];
    static {
        for (int i = 0; i < 256; i++) {
            BYTE[i] = IntValue.gen(i);
        }
    }

    static Value seq(final byte[] b) {
        return seq(b, 0, b.length);
    }

    static Value seq(final byte[] b, final int from, final int to) {
        final Value[] e = new Value[to - from];
        for (int i = from; i < to; i++) {
            e[i - from] = BYTE[b[i] & 0xff];
        }
        return new TupleValue(e);
    }

    /** A natural number as its canonical (minimal, big-endian) byte sequence. */
    static BigInteger nat(final Value v) {
        return new BigInteger(1, bytes(v));
    }

    static Value nat(final BigInteger n) {
        if (n.signum() < 0) {
            throw new IllegalArgumentException("negative natural");
        }
        if (n.signum() == 0) {
            return new TupleValue(new Value[0]);
        }
        final byte[] b = n.toByteArray();
        int from = 0;
        while (from < b.length - 1 && b[from] == 0) {
            from++;
        }
        return seq(b, from, b.length);
    }

    static int i(final Value v) {
        return ((IntValue) v).val;
    }

    static String s(final Value v) {
        return ((StringValue) v).val.toString();
    }
}
