package verif;

import tlc2.overrides.ITLCOverrides;

/** Loaded with -Dtlc2.overrides.TLCOverrides=tlc2.overrides.TLCOverrides:verif.Index */
public final class Index implements ITLCOverrides {
    @SuppressWarnings("rawtypes")
    @Override
    public Class[] get() {
        return new Class[] {BigNat.class, Hash.class};
    }
}
