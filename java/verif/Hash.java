package verif;

import java.nio.charset.StandardCharsets;
import java.security.MessageDigest;
import java.security.NoSuchAlgorithmException;
import java.text.Normalizer;

import tlc2.overrides.TLAPlusOperator;
import tlc2.value.impl.StringValue;
import tlc2.value.impl.Value;

/** Hash primitives and text primitives on byte sequences (modules Hash, Text). */
public final class Hash {
    private Hash() {}

    private static Value md(final String alg, final Value m) {
        try {
            return V.seq(MessageDigest.getInstance(alg).digest(V.bytes(m)));
        } catch (final NoSuchAlgorithmException e) {
            throw new IllegalStateException(e);
        }
    }

    @TLAPlusOperator(identifier = "SHA1", module = "Hash", warn = false)
    public static Value sha1(final Value m) {
        return md("SHA-1", m);
    }

    @TLAPlusOperator(identifier = "SHA256", module = "Hash", warn = false)
    public static Value sha256(final Value m) {
        return md("SHA-256", m);
    }

    @TLAPlusOperator(identifier = "SHA512", module = "Hash", warn = false)
    public static Value sha512(final Value m) {
        return md("SHA-512", m);
    }

    @TLAPlusOperator(identifier = "RIPEMD160", module = "Hash", warn = false)
    public static Value ripemd160(final Value m) {
        return V.seq(Ripemd160.digest(V.bytes(m)));
    }

    // ---- Text ----------------------------------------------------------

    @TLAPlusOperator(identifier = "FromHex", module = "Hash", warn = false)
    public static Value fromHex(final Value s) {
        final String h = V.s(s);
        if (h.length() % 2 != 0) {
            throw new IllegalArgumentException("odd hex length");
        }
        final byte[] out = new byte[h.length() / 2];
        for (int i = 0; i < out.length; i++) {
            out[i] = (byte) Integer.parseInt(h.substring(2 * i, 2 * i + 2), 16);
        }
        return V.seq(out);
    }

    @TLAPlusOperator(identifier = "ToHex", module = "Hash", warn = false)
    public static Value toHex(final Value b) {
        final StringBuilder sb = new StringBuilder();
        for (final byte x : V.bytes(b)) {
            sb.append(String.format("%02x", x & 0xff));
        }
        return new StringValue(sb.toString());
    }

    @TLAPlusOperator(identifier = "Utf8", module = "Hash", warn = false)
    public static Value utf8(final Value s) {
        return V.seq(V.s(s).getBytes(StandardCharsets.UTF_8));
    }

    private static Value norm(final Value b, final Normalizer.Form f) {
        final String s = new String(V.bytes(b), StandardCharsets.UTF_8);
        return V.seq(Normalizer.normalize(s, f).getBytes(StandardCharsets.UTF_8));
    }

    @TLAPlusOperator(identifier = "NFKD", module = "Hash", warn = false)
    public static Value nfkd(final Value b) {
        return norm(b, Normalizer.Form.NFKD);
    }

    @TLAPlusOperator(identifier = "NFC", module = "Hash", warn = false)
    public static Value nfc(final Value b) {
        return norm(b, Normalizer.Form.NFC);
    }
}
